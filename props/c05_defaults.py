"""C05 - defaults fill omitted values and never override supplied ones."""
import copy
import warnings
import itertools

from hypothesis import strategies as st

from vlib import findings, observe, recipes as R, runner
from vlib.jsonvals import canon, json_identical
from vlib import jsonvals as jv
from vlib.values_for import instance_of

from statham.schema.constants import NotPassed
from statham.schema.elements import Element
from statham.schema.elements.meta import ObjectMeta

PID = "C05"
RULE = (
    "case = object schema as DSL class, DSL untyped element, or parsed from the equivalent JSON "
    "schema, with 1-4 properties (plain / renamed), each with no default, a default valid for its "
    "schema, or an invalid one; nested objects with own defaults; class-level default; optional "
    "overlapping patternProperties; required flags; one candidate value per property. ALL subsets "
    "of suppliable properties are enumerated (<=16 per case): supplied p => model.p == "
    "p.element(value); omitted p with default d => if p.element(d) succeeds model.p == "
    "p.element(d) == model-with-d-supplied.p, else model.p is d itself, never an exception; "
    "omitted without default => NotPassed; plus el(NotPassed()) / Cls() on every node of the tree "
    "on the same terms; non-trivial = subset with >=1 omitted defaulted property; distinct = "
    "canon(recipe, subset)"
)
RULE += (
    ' Parsed mode (half of the cases; a quarter of those through the documented loader) also compares the default of every parsed property with the one written in the document (nested literals included).'
)
RULE += (
    ' Round 9: a default declared by the ONLY member of a composition (no keyword of its own next to it) counts as declared by the property (one hop at a time, not into classes).'
)
ASSUMPTIONS = [
    "conversion of a value is observed through the property's own element called alone (differential inside the library, as the statement is phrased)",
    "'no value' = the NotPassed marker for element instances (Element.__call__ has no parameter default) and Cls() for classes",
]
BUDGET = {"quick": 400, "thorough": 3500}

observe.register_formats()
CFG = R.RCfg(depth=2, kw_max=2, nothing=False)
NP = observe.NP


@st.composite
def cases(draw):
    gen = R._Gen()
    root_kind = draw(st.sampled_from(["Object", "Object", "Element"]))
    root = {"id": gen.new_id(), "kind": root_kind, "kw": {}}
    if root_kind == "Object":
        root["name"] = gen.class_names.pop(0)
    # element-valued keywords are built before the properties: generate in build order
    if draw(st.integers(0, 3)) == 0:
        pat = draw(st.sampled_from(["^a", "b$", "a|b", "x"]))
        root["sub"] = {"patternProperties": {pat: draw(R._node(CFG, 1, gen))}}
    props = draw(R._props_strategy(CFG, 2, gen))
    if not props:
        props = [{"name": "a", "source": None, "required": False,
                  "element": {"id": gen.new_id(), "kind": "String", "kw": {}}}]
    root["props"] = props
    idx = R.index(root)
    for p in props:
        el = p["element"] if "kind" in p["element"] else idx[p["element"]["ref"]]
        if el["kind"] == "Nothing":
            continue
        choice = draw(st.integers(0, 5))
        if "default" in el.get("kw", {}) or choice <= 1:
            continue
        if choice <= 3:  # aim at a valid default
            trial = copy.deepcopy(el)
            trial["kw"] = {k: v for k, v in el.get("kw", {}).items() if k != "default"}
            sch = R.to_schema(trial, idx)
            el.setdefault("kw", {})["default"] = draw(instance_of(sch if isinstance(sch, dict) else {}))
        else:
            el.setdefault("kw", {})["default"] = draw(st.one_of(jv.json_values(max_leaves=3), jv.json_values(max_leaves=3), jv.nested_literals()))
    if root_kind == "Object" and draw(st.integers(0, 4)) == 0:
        root["kw"]["default"] = draw(st.one_of(st.just({}), jv.json_values(max_leaves=3)))
    if root_kind == "Object" and draw(st.integers(0, 3)) == 0 and gen.class_names:
        # the model is a SUBCLASS: the parent (built first, and used first) declares other properties
        parent = {"id": gen.new_id(), "kind": "Object", "kw": {}, "name": gen.class_names.pop(0), "props": []}
        taken = {p["name"] for p in root["props"]} | {p.get("source") for p in root["props"]}
        for pname in ["pa", "pb"][: draw(st.integers(1, 2))]:
            el = {"id": gen.new_id(), "kind": draw(st.sampled_from(["String", "Integer", "Element"])), "kw": {}}
            if draw(st.booleans()):
                el["kw"]["default"] = draw(st.sampled_from(["d", 0, None, 5]))
            parent["props"].append({"name": pname, "source": draw(st.sampled_from([None, None, pname + "-x"])),
                                    "required": False, "element": el})
        root["base"] = parent
        # build order is base first: the base must not reference the child's nodes (it does not)
        root = {k: root[k] for k in ("id", "kind", "name", "kw", "base", "sub", "props") if k in root}
    idx = R.index(root)
    supplied = {}
    for p in (R.flat_class(root, idx)[2] if root_kind == "Object" else root["props"]):
        sch = R.to_schema(p["element"], idx)
        supplied[p["name"]] = draw(instance_of(sch if isinstance(sch, dict) else {}))
    mode = draw(st.sampled_from(["dsl", "parsed"]))
    return {"mode": mode, "recipe": root, "supplied": supplied, "pipeline": draw(st.sampled_from(observe.PIPELINES))}


@st.composite
def shared_doc_cases(draw):
    """A defaulted schema in `definitions`, referenced from 2-3 properties of one object (all references
    share one dict after materialize): every referencing property must receive the default."""
    t = draw(st.sampled_from([["string", "null"], ["integer", "string"], "string", ["string"], "integer",
                              ["number", "boolean", "null"]]))
    default = draw(st.sampled_from(["nick", "", 0, 5, None, False, "x"]))
    shared = {"type": t, "default": default}
    if draw(st.booleans()):
        shared = {"anyOf": [{"type": "string"}, {"type": "integer"}], "default": default}
    names = draw(st.lists(st.sampled_from(["a", "b", "class", "x1"]), min_size=2, max_size=3, unique=True))
    doc = {"type": "object", "title": "Root", "properties": {n: {"$ref": "#/definitions/shared"} for n in names},
           "definitions": {"shared": shared}}
    return {"mode": "shared-doc", "document": doc, "names": names, "default": default}


def shared_doc_predicate(case, stats):
    from vlib import docs
    from statham.schema.exceptions import SchemaParseError
    from statham.schema.parser import parse

    try:
        root = parse(docs.materialized({"a.json": copy.deepcopy(case["document"])}, "a.json"))[0]
    except SchemaParseError as exc:
        return [{"sub": "parse", "kind": "parse-refused:" + type(exc).__name__}]
    fails = []
    got = observe.verdict(root, {})
    stats.case(canon(case["document"]), True, ["shared-doc", "refs:%d" % len(case["names"])],
               sample={"document": case["document"]})
    if got[0] != "ok":
        return [{"sub": "accept", "kind": "rejects-valid-data", "data": {}, "detail": list(map(str, got))}]
    by_source = {(p.source if p.source is not None else n): n for n, p in root.properties.items()}
    for name in case["names"]:
        attr = by_source.get(name)
        element = root.properties[attr].element
        declared = getattr(element, "default", NotPassed())
        have = getattr(got[1], attr)
        exp = expect_default(element, case["default"])
        if isinstance(have, NotPassed) or isinstance(declared, NotPassed):
            fails.append({"sub": "omitted", "kind": "omitted-default-not-applied", "property": name,
                          "default": case["default"], "element": repr(element)[:200]})
        elif exp[0] == "converted" and not observe.plain_eq(observe.plain(have), exp[1]):
            fails.append({"sub": "omitted", "kind": "default-not-converted-as-if-supplied", "property": name})
    return fails


@st.composite
def record_map_cases(draw):
    """A name -> record map (no declared names, the records come in through additionalProperties / patternProperties /
    items) whose RECORDS declare defaults; the data reaches the model as plain dicts, or after a first trip through an
    untyped element (a settings loader, say) - as objects the library built itself."""
    record = {"type": "object", "title": "Record", "properties": {
        "host": {"type": "string"}, "port": {"type": "integer", "default": draw(st.sampled_from([80, 0]))},
        "class": {"type": "string", "default": draw(st.sampled_from(["x", ""]))}}}
    if draw(st.booleans()):
        record = {"properties": record["properties"]}  # untyped record
    where = draw(st.sampled_from(["additionalProperties", "patternProperties", "items", "nested-map"]))
    if where == "additionalProperties":
        holder, data = {"additionalProperties": record}, {"a": {"host": "h"}, "b": {}}
    elif where == "patternProperties":
        holder, data = {"patternProperties": {"^s": record}}, {"s1": {"host": "h"}, "s2": {"port": 1}}
    elif where == "items":
        holder, data = {"type": "array", "items": record}, [{"host": "h"}, {}]
    else:
        holder, data = {"additionalProperties": {"additionalProperties": record}}, {"g": {"a": {"host": "h"}, "b": {}}}
    doc = {"type": "object", "title": "Root", "properties": {"servers": holder, "name": {"type": "string"}}}
    return {"mode": "record-map", "document": doc, "data": {"servers": data, "name": "n"},
            "pipeline": draw(st.sampled_from(observe.PIPELINES))}


def record_map_predicate(case, stats):
    parsed = observe.safe_parse(case["document"], case.get("pipeline"))
    if parsed[0] != "ok":
        return [{"sub": "parse", "kind": "parse-refused:" + str(parsed[1])}]
    model = parsed[1]
    plain_way = observe.verdict(model, case["data"])
    stats.case(canon(case), True, ["mode:record-map", "verdict:" + plain_way[0]], sample=case)
    if plain_way[0] != "ok":
        return [{"sub": "accept", "kind": "rejects-valid-data", "data": case["data"]}]
    want = observe.plain(plain_way[1])
    fails = []

    def records(node):
        if isinstance(node, dict):
            if "host" in node or "port" in node or node == {}:
                yield node
            else:
                for v in node.values():
                    yield from records(v)
        elif isinstance(node, list):
            for v in node:
                yield from records(v)

    for rec in records(want.get("servers")):
        if "port" not in rec and "class_" not in rec and "class" not in rec:
            fails.append({"sub": "omitted", "kind": "record-default-not-applied", "record": rec})
            break
    loaded = observe.verdict(Element(), case["data"])
    if loaded[0] == "ok":
        try:
            with warnings.catch_warnings():
                warnings.simplefilter("ignore")
                again = model(loaded[1])
            got = observe.plain(again)
            if not observe.plain_eq(got, want):
                fails.append({"sub": "loaded", "kind": "library-built-input-handled-unlike-the-plain-dict",
                              "detail": [canon(got)[:300], canon(want)[:300]]})
        except Exception as exc:  # noqa: BLE001
            fails.append({"sub": "loaded", "kind": "library-built-input-raised:" + type(exc).__name__})
    return fails


def build(case):
    if case["mode"] == "parsed":
        parsed = observe.safe_parse(R.to_schema(case["recipe"]), case.get("pipeline"))
        return parsed[1] if parsed[0] == "ok" else None
    return R.build(case["recipe"])


def read(result, name):
    if isinstance(type(result), ObjectMeta):
        return getattr(result, name)
    return result[name]


def call_none(element):
    """'Calling with no value'."""
    try:
        if isinstance(element, ObjectMeta):
            return ("ok", element())
        return ("ok", element(NotPassed()))
    except Exception as exc:  # noqa: BLE001
        return ("raised", type(exc).__name__, str(exc)[:120])


def expect_default(element, default):
    """What an omitted value must turn into for this element."""
    conv = observe.verdict(element, copy.deepcopy(default), check_input=False)
    if conv[0] == "ok":
        return ("converted", observe.plain(conv[1]))
    return ("as-is", default)


def check_no_value(obj, label):
    fails = []
    default = getattr(obj, "default", NotPassed())
    got = call_none(obj)
    if got[0] != "ok":
        return [{"sub": "novalue", "kind": "no-value-call-raised:" + got[1], "where": label, "detail": got[2]}]
    if isinstance(default, NotPassed):
        if not isinstance(got[1], NotPassed):
            fails.append({"sub": "novalue", "kind": "no-default-but-not-NotPassed", "where": label,
                          "got": repr(got[1])[:120]})
        return fails
    exp = expect_default(obj, default)
    if exp[0] == "converted":
        if not observe.plain_eq(observe.plain(got[1]), exp[1]):
            fails.append({"sub": "novalue", "kind": "no-value-differs-from-default-conversion", "where": label,
                          "detail": [canon(observe.plain(got[1]))[:200], canon(exp[1])[:200]]})
    elif not json_identical(got[1], default) and not (isinstance(got[1], NotPassed)):
        fails.append({"sub": "novalue", "kind": "invalid-default-not-returned-as-is", "where": label,
                      "detail": [repr(got[1])[:120], canon(default)[:120]]})
    elif isinstance(got[1], NotPassed):
        fails.append({"sub": "novalue", "kind": "default-lost", "where": label})
    return fails


def predicate(case, stats):
    if case["mode"] == "shared-doc":
        return shared_doc_predicate(case, stats)
    if case["mode"] == "record-map":
        return record_map_predicate(case, stats)
    model = build(case)
    if model is None:
        stats.case(canon(case), False, ["parse-refused"])
        return []
    fails = []
    props = dict(model.properties or {})
    # property python names as the *built* model has them (the parser derives them from the JSON name)
    by_source = {(p.source if p.source is not None else n): n for n, p in props.items()}
    recipe_props = case["recipe"]["props"]
    if case["recipe"].get("base") and case["recipe"]["kind"] == "Object":
        recipe_props = R.flat_class(case["recipe"], R.index(case["recipe"]))[2]
        if case["mode"] == "dsl":
            # history: the parent is used before the subclass (state cached on the parent must not leak)
            for parent_cls in type.mro(model)[1:]:
                if isinstance(parent_cls, ObjectMeta) and parent_cls.__name__ != "Object":
                    observe.verdict(parent_cls, {})
                    observe.verdict(parent_cls, {"pa": "x"})
        stats.classes["subclass-model"] += 1
    has_pattern = bool(case["recipe"].get("sub", {}).get("patternProperties"))
    suppliable = []
    for rp in recipe_props:
        src = rp["source"] if rp.get("source") is not None else rp["name"]
        name = by_source.get(src)
        if name is None:
            continue
        value = case["supplied"][rp["name"]]
        alone = observe.verdict(props[name].element, value)
        if alone[0] == "ok":
            suppliable.append((src, name, value, observe.plain(alone[1])))
    if case["mode"] == "parsed":
        # "the default its schema declares" is the one in the DOCUMENT: the parser must hand it on unaltered
        # (whatever the loading pipeline wrote into the document's dicts)
        idx_r = R.index(case["recipe"])
        for rp in recipe_props:
            src = rp["source"] if rp.get("source") is not None else rp["name"]
            name = by_source.get(src)
            if name is None:
                continue
            node = rp["element"] if "kind" in rp["element"] else idx_r[rp["element"]["ref"]]
            kw_eff = R.flat_class(node, idx_r)[0] if node.get("base") and node["kind"] == "Object" else node.get("kw", {})
            want = kw_eff.get("default", NotPassed())
            hop = node
            while (isinstance(want, NotPassed) and hop.get("kind") in ("AnyOf", "OneOf", "AllOf")
                   and len(hop.get("elements") or []) == 1 and not hop.get("kw")):
                # {"allOf": [S]} says what S says: a default declared by the only member is declared by the property
                # (ref6 reads `declares a default` through compositions in the same way)
                hop = hop["elements"][0] if "kind" in hop["elements"][0] else idx_r[hop["elements"][0]["ref"]]
                if hop.get("kind") == "Object":
                    break  # a class keeps its own default; the wrapper stays (AllOf(Cls))
                want = hop.get("kw", {}).get("default", NotPassed())
            have_d = getattr(props[name].element, "default", NotPassed())
            # (a property schema WITHOUT a default of its own may still end up with one: a one-member composition
            # collapses to its member, default included - nothing in the statement forbids that)
            if not isinstance(want, NotPassed) and (isinstance(have_d, NotPassed) or not json_identical(have_d, want)):
                fails.append({"sub": "declared", "kind": "parsed-default-differs-from-declared", "property": name,
                              "declared": repr(want)[:200], "parsed": repr(have_d)[:200],
                              "pipeline": case.get("pipeline", "plain")})
    declared = [(src, name) for src, name in by_source.items()]
    for r in range(len(suppliable) + 1):
        for subset in itertools.combinations(suppliable, r):
            data = {src: copy.deepcopy(v) for src, _, v, _ in subset}
            got = observe.verdict(model, data)
            omitted = [(src, name) for src, name in declared if src not in data]
            omitted_defaulted = [
                (src, name) for src, name in omitted
                if not isinstance(getattr(props[name].element, "default", NotPassed()), NotPassed)
            ]
            classes = ["mode:" + case["mode"], "root:" + case["recipe"]["kind"], "verdict:" + got[0]]
            for src, name in omitted_defaulted:
                classes.append("omitted-default" + (":renamed" if src != name else ""))
            stats.case(canon([case["recipe"], sorted(data)]), bool(omitted_defaulted), classes,
                       sample={"mode": case["mode"], "recipe": case["recipe"], "data": data})
            if got[0] != "ok":
                missing_required = [
                    name for src, name in omitted
                    if props[name].required
                    and isinstance(getattr(props[name].element, "default", NotPassed()), NotPassed)
                ]
                if missing_required:
                    continue  # legitimately rejected: a required property without default is absent
                untyped_parsed = case["mode"] == "parsed" and case["recipe"]["kind"] == "Element"
                if untyped_parsed:
                    # an untyped element parsed from a schema keeps the explicit `required` list; C01 reads
                    # "may be omitted" as leaving this verdict open, so a rejection is not flagged here
                    stats.classes["untyped-parsed-rejection-tolerated"] += 1
                    continue
                if got[0] == "reject" and not has_pattern and not case["recipe"]["kw"]:
                    fails.append({"sub": "accept", "kind": "rejects-valid-data", "data": data,
                                  "detail": list(map(str, got))})
                elif got[0] not in ("reject",):
                    fails.append({"sub": "accept", "kind": "crash:" + str(got[1] if len(got) > 1 else got[0]),
                                  "data": data, "detail": list(map(str, got))})
                continue
            result = got[1]
            # the same data after a trip through an untyped element (the dicts are then objects the library itself
            # built): the model must treat them like the plain dicts they stand for
            loaded = observe.verdict(Element(), data)
            if loaded[0] == "ok":
                try:
                    with warnings.catch_warnings():
                        warnings.simplefilter("ignore")
                        again = model(loaded[1])
                    if not observe.plain_eq(observe.plain(again), observe.plain(result)):
                        fails.append({"sub": "loaded", "kind": "library-built-input-handled-unlike-the-plain-dict", "data": data,
                                      "detail": [canon(observe.plain(again))[:200], canon(observe.plain(result))[:200]]})
                except Exception as exc:  # noqa: BLE001
                    fails.append({"sub": "loaded", "kind": "library-built-input-raised:" + type(exc).__name__, "data": data})
            for src, name, value, alone in subset:
                try:
                    have = observe.plain(read(result, name))
                except (KeyError, AttributeError):
                    fails.append({"sub": "supplied", "kind": "supplied-not-readable", "data": data, "property": name})
                    continue
                if has_pattern:
                    continue  # the value is then converted by an AllOf with the pattern element
                if not observe.plain_eq(have, alone):
                    fails.append({"sub": "supplied", "kind": "supplied-value-replaced", "data": data,
                                  "property": name, "detail": [canon(have)[:200], canon(alone)[:200]]})
            for src, name in omitted:
                element = props[name].element
                default = getattr(element, "default", NotPassed())
                try:
                    have = read(result, name)
                except (KeyError, AttributeError):
                    fails.append({"sub": "omitted", "kind": "omitted-property-not-readable", "data": data,
                                  "property": name})
                    continue
                if isinstance(default, NotPassed):
                    if not isinstance(have, NotPassed):
                        fails.append({"sub": "omitted", "kind": "omitted-without-default-not-NotPassed",
                                      "data": data, "property": name, "got": repr(have)[:100]})
                    continue
                exp = expect_default(element, default)
                if exp[0] == "converted" and isinstance(default, (list, dict)) and have is default:
                    # "converted exactly as if it had been supplied": a supplied container is rebuilt; handing out
                    # the schema's own default object lets the caller's later edits rewrite the schema
                    fails.append({"sub": "omitted", "kind": "valid-container-default-handed-out-by-identity", "data": data,
                                  "property": name, "default": default})
                if isinstance(have, NotPassed):
                    fails.append({"sub": "omitted", "kind": "omitted-default-not-applied", "data": data,
                                  "property": name, "source": src, "default": default})
                elif exp[0] == "converted":
                    if not has_pattern and not observe.plain_identical(observe.plain(have), exp[1]):
                        fails.append({"sub": "omitted", "kind": "default-not-converted-as-if-supplied",
                                      "data": data, "property": name,
                                      "detail": [canon(observe.plain(have))[:200], canon(exp[1])[:200]]})
                    with_d = observe.verdict(model, {**data, src: copy.deepcopy(default)})
                    if with_d[0] == "ok":
                        twin = observe.plain(read(with_d[1], name))
                        if not observe.plain_eq(observe.plain(have), twin):
                            fails.append({"sub": "omitted", "kind": "omitted-differs-from-supplied-default",
                                          "data": data, "property": name,
                                          "detail": [canon(observe.plain(have))[:200], canon(twin)[:200]]})
                elif not json_identical(have, default) and not has_pattern:
                    fails.append({"sub": "omitted", "kind": "invalid-default-not-returned-as-is", "data": data,
                                  "property": name, "detail": [repr(have)[:120], canon(default)[:120]]})
    # calling every node with no value
    env = {}
    if case["mode"] == "dsl":
        R._build(copy.deepcopy(case["recipe"]), env)
        for nid, obj in env.items():
            f = check_no_value(obj, f"node{nid}")
            stats.case(canon(["novalue", R.index(case["recipe"])[nid]]), False, ["novalue"])
            fails.extend(f)
    else:
        fails.extend(check_no_value(model, "root"))
    return fails


replay_predicate = predicate


def run_shard(ctx, stats):
    strat = st.one_of(cases(), cases(), cases(), cases(), cases(), cases(), shared_doc_cases(), record_map_cases())
    return runner.hyp_run(ctx, stats, strat, predicate, BUDGET[ctx.tier])
