"""C15 - a subclass model means its parent's schema plus its own additions."""
import copy

from hypothesis import strategies as st

from vlib import observe, recipes as R, runner
from vlib.jsonvals import canon, json_eq
from vlib.values_for import values_for
from props.c17_equality import alpha

from statham.schema.constants import NotPassed
from statham.schema.elements import Array
from statham.schema.property import Property

PID = "C15"
RULE = (
    "case = chain of 2-3 model classes (parent, child, optional grandchild; any class keywords "
    "inherited or overridden, properties added or overridden, renamed properties) + the equivalent "
    "flat class computed by the documented merge (child keyword wins else inherited; properties "
    "parent-first, overridden in place) x 6-10 values x a history of steps (use parent, use child, "
    "reconfigure child by attribute assignment / properties[...] = / properties[name].required =); checks: child verdict and "
    "read-back == flat class, alpha(serialize_json(child)) == alpha(serialize_json(flat)), instances "
    "of the child are instances of every ancestor, and after EVERY step the parent's snapshot (repr, "
    "JSON, Python text, deep dump) and its verdicts on the fixed value set are unchanged; non-trivial "
    "= chain where the child overrides or adds >=1 property or keyword and >=1 value is accepted and "
    ">=1 rejected by the child; distinct = canon(case)"
)
RULE += (
    ' Children may list a plain Python mix-in before or after the model parent.'
)
RULE += (
    ' Round 9: OneOf / AnyOf(ancestor, child) must give the verdicts of the same composition over the ancestor and the flat class.'
)
RULE += (
    ' Round 10: a third of the classes of a chain get their description as a DOCSTRING (sometimes next to the keyword, which wins); the flat class carries the effective description as keyword.'
)
ASSUMPTIONS = [
    "reconfiguration of the child is reassignment-style only; mutating a container inherited by reference in place is not claimed by the statement",
    "effective JSON names of the merged properties are unique (ambiguous declarations are not generated)",
]
BUDGET = {"quick": 160, "thorough": 2200}

observe.register_formats()
CFG = R.RCfg(depth=2, inheritance=False)


def eff(p):
    return p["source"] if p.get("source") is not None else p["name"]


@st.composite
def cases(draw):
    gen = R._Gen()
    chain = []
    everything = {}  # every node ever generated (filtered-out ones may still be shared later)
    for level in range(draw(st.sampled_from([2, 2, 3]))):
        node = draw(R._node(CFG, 2, gen, kinds=["Object"]))
        if node.get("kind") != "Object":
            break  # class names exhausted: the generator fell back to an untyped element
        everything.update(R.index(copy.deepcopy(node)))
        if draw(st.integers(0, 2)) == 0:
            # the description given as the class's docstring (sometimes NEXT TO the keyword, which then wins)
            if "description" in node.get("kw", {}) and draw(st.booleans()):
                node["doc"] = node["kw"].pop("description")
            else:
                node["doc"] = draw(st.sampled_from(["Child doc", "doc of level %d" % level, "two\nlines", ""]))
        if chain:
            node["base"] = {"ref": chain[-1]["id"]}
            # class Child(Mixin, Parent) / (Parent, Mixin): a plain Python mix-in next to the model parent
            mix = draw(st.sampled_from([None, None, "first", "last"]))
            node.pop("mixin", None)
            if mix:
                node["mixin"] = mix
            # keep effective JSON names unique across the merged class
            _, _, merged = R.flat_class(chain[-1], R.index(chain))
            taken = {eff(p): p["name"] for p in merged}
            node["props"] = [
                p for p in node.get("props", [])
                if taken.get(eff(p), p["name"]) == p["name"]
                and not any(q["name"] == p["name"] and False for q in merged)
            ]
            names = {p["name"]: eff(p) for p in node["props"]}
            # an overriding property must not steal another merged property's JSON name
            node["props"] = [
                p for p in node["props"]
                if all(eff(q) != eff(p) or q["name"] == p["name"] for q in merged)
            ]
        node = R.repair_refs(chain + [node], everything)[-1]
        chain.append(node)
    if len(chain) < 2:
        chain = chain + [{"id": gen.new_id(), "kind": "Object", "kw": {}, "name": "Leaf%d" % gen.next_id,
                          "props": [], "base": {"ref": chain[-1]["id"]}}]
    idx = R.index(chain)
    flat = flat_recipe(chain, idx)
    values = draw(values_for(R.to_schema(flat, R.index(chain + [flat])), 6, 10))
    steps = draw(st.lists(step(), min_size=3, max_size=8))
    for i, st_ in enumerate(steps):
        if st_["op"] == "reconf_prop":
            st_["prop"]["element"]["id"] = 9000 + i  # one id per node: two steps must not share one
    return {"chain": chain, "values": values, "steps": steps}


@st.composite
def step(draw):
    kind = draw(st.sampled_from(["use_parent", "use_child", "use_child", "reconf_kw", "reconf_prop",
                                 "reconf_sub", "reconf_flag", "assign_parent_props"]))
    if kind == "assign_parent_props":
        return {"op": kind}
    if kind == "reconf_flag":
        return {"op": kind, "index": draw(st.integers(0, 6)), "required": draw(st.booleans())}
    if kind == "reconf_kw":
        kw = draw(st.sampled_from(R.ALLOWED_KW["Object"]))
        return {"op": kind, "kw": kw, "value": R._lit_kw(draw, R.RCfg(), kw)}
    if kind == "reconf_sub":
        return {"op": kind, "key": "additionalProperties", "value": draw(st.booleans())}
    if kind == "reconf_prop":
        return {"op": kind, "prop": {
            "name": draw(st.sampled_from(["zz", "a", "b"])), "source": None,
            "required": draw(st.booleans()),
            "element": {"id": 9000 + draw(st.integers(0, 50)), "kind": draw(st.sampled_from(["String", "Integer", "Null"])), "kw": {}}}}
    return {"op": kind}


def flat_recipe(chain, idx=None):
    idx = idx or R.index(chain)
    kw, sub, props = R.flat_class(chain[-1], idx)
    if chain[-1].get("props_reset"):
        props = chain[-1]["props"]  # `.properties = ...` replaced the merged dictionary as a whole
    return {"id": 8000, "kind": "Object", "name": "Flat", "kw": copy.deepcopy(kw),
            "sub": copy.deepcopy(sub), "props": copy.deepcopy(props)}


def resolve_flat(flat, chain, original=None):
    """The flat recipe refers to nodes defined inside the chain; inline them for an independent build."""
    idx = dict(R.index(original or []))
    idx.update(R.index(chain))
    return R.repair_refs(copy.deepcopy(flat), idx)


def compare(child, flat, values, classes_chain, label):
    fails = []
    n_ok = n_rej = 0
    for value in values:
        a, b = observe.verdict(child, value), observe.verdict(flat, value)
        if a[0] == "ok":
            n_ok += 1
        elif a[0] == "reject":
            n_rej += 1
        if a[0] != b[0]:
            fails.append({"sub": "verdict", "kind": f"child-{a[0]}-flat-{b[0]}", "value": value, "when": label})
            continue
        if a[0] == "ok":
            pa, pb = observe.plain(a[1]), observe.plain(b[1])
            if not observe.plain_eq(pa, pb):
                fails.append({"sub": "result", "kind": "child-result-differs-from-flat", "value": value,
                              "detail": [canon(pa)[:300], canon(pb)[:300]], "when": label})
            if isinstance(value, dict) and not isinstance(a[1], NotPassed):
                for anc in classes_chain:
                    if not isinstance(a[1], anc):
                        fails.append({"sub": "isinstance", "kind": "instance-not-of-ancestor",
                                      "detail": anc.__name__, "value": value})
    # an instance of an ancestor handed to the subclass / to the flat class: neither is "a Child", both must say so
    # the same way (which exception escapes is part of how a class validates)
    def raw(cls_, value):
        try:
            with __import__("warnings").catch_warnings():
                __import__("warnings").simplefilter("ignore")
                cls_(value)
            return "ok"
        except Exception as exc:  # noqa: BLE001
            return type(exc).__name__

    # ... and the other way round: what the subclass built is an instance of every ancestor, so every ancestor (alone,
    # as array items, as a property) takes it as it is
    for value in [v for v in values if isinstance(v, dict)][:4]:
        made = observe.verdict(child, value)
        if made[0] != "ok" or isinstance(made[1], NotPassed) or not isinstance(made[1], child):
            continue
        for anc in classes_chain:
            if anc is child:
                continue
            for how, call in (("direct", lambda a=anc: a(made[1])), ("array-item", lambda a=anc: Array(a)([made[1]])[0])):
                try:
                    with __import__("warnings").catch_warnings():
                        __import__("warnings").simplefilter("ignore")
                        back = call()
                    if back is not made[1]:
                        fails.append({"sub": "instance-input", "kind": "ancestor-rebuilt-an-instance-of-its-subclass",
                                      "ancestor": anc.__name__, "how": how, "value": value, "when": label})
                except Exception as exc:  # noqa: BLE001
                    fails.append({"sub": "instance-input", "kind": "ancestor-refused-an-instance-of-its-subclass:" +
                                  type(exc).__name__, "ancestor": anc.__name__, "how": how, "value": value, "when": label})
                    break
        break
    for anc in classes_chain:
        if anc is child:
            continue  # (its own instances are passed through by the subclass and refused by the flat class)
        for value in [v for v in values if isinstance(v, dict)][:3]:
            made = observe.verdict(anc, value)
            if made[0] != "ok" or isinstance(made[1], NotPassed):
                continue
            for wrap in (lambda c: c, lambda c: Array(c)):
                arg = made[1] if wrap(child) is child else [made[1]]
                a, b = raw(wrap(child), arg), raw(wrap(flat), arg)
                if a != b:
                    fails.append({"sub": "instance-input", "kind": f"ancestor-instance:child-{a}-flat-{b}", "value": value,
                                  "ancestor": anc.__name__, "when": label})
                    break
            break
    # the subclass standing NEXT TO an ancestor in a composition behaves like the flat class standing there
    from statham.schema.elements import AnyOf, OneOf

    for anc in classes_chain:
        if anc is child:
            continue
        for comp in (OneOf, AnyOf):
            with_child, with_flat = comp(anc, child), comp(anc, flat)
            for value in values[:6]:
                a, b = observe.verdict(with_child, value), observe.verdict(with_flat, value)
                if a[0] != b[0]:
                    fails.append({"sub": "composition", "kind": f"{comp.__name__}(ancestor, child)-{a[0]}-vs-flat-{b[0]}",
                                  "ancestor": anc.__name__, "value": value, "when": label})
                    break
        break
    ja, jb = observe.ser_json(child), observe.ser_json(flat)
    if ja[0] != jb[0]:
        fails.append({"sub": "json", "kind": "serialisation-outcome-differs", "detail": [ja[0], jb[0]], "when": label})
    elif ja[0] == "ok" and not json_eq(alpha(ja[1]), alpha(jb[1])):
        fails.append({"sub": "json", "kind": "child-schema-differs-from-flat",
                      "detail": [canon(alpha(ja[1]))[:500], canon(alpha(jb[1]))[:500]], "when": label})
    # the other serialiser: the module generated for the child, executed on its own, declares a class that is
    # the flat class (equality ignores class names) and judges the values alike
    py = observe.ser_python(child)
    if py[0] != "ok":
        fails.append({"sub": "python", "kind": "child-serialize-python-" + ":".join(map(str, py[:2])), "when": label})
    else:
        from props.c07_defaults_descriptions import exec_module

        ns, problem = exec_module(py[1])
        gen = ns.get(child.__name__) if ns is not None else None
        if problem or gen is None:
            fails.append({"sub": "python", "kind": "child-module-does-not-execute:" + str((problem or {}).get("kind", "class-missing")),
                          "when": label, "text": py[1][-500:]})
        else:
            try:
                same = (gen == flat) and (flat == gen)
            except Exception as exc:  # noqa: BLE001
                same = "raised " + type(exc).__name__
            if same is not True:
                fails.append({"sub": "python", "kind": "generated-child-differs-from-flat", "when": label,
                              "generated": gen.python()[:400], "flat": flat.python()[:400]})
            else:
                for value in values[:6]:
                    a, b = observe.verdict(gen, value), observe.verdict(flat, value)
                    if a[0] != b[0]:
                        fails.append({"sub": "python", "kind": f"generated-child-{a[0]}-flat-{b[0]}", "value": value,
                                      "when": label})
                        break
    return fails, n_ok, n_rej


def predicate(case, stats):
    chain = copy.deepcopy(case["chain"])
    env = {}
    classes = [R._build(copy.deepcopy(node), env) for node in chain]
    parent, child = classes[0], classes[-1]
    ancestors = classes[:-1]
    model = copy.deepcopy(chain)
    values = case["values"]
    fixed = values[:6]

    def parent_state():
        return [observe.snapshot(a) for a in ancestors], [
            [(v[0], canon(observe.plain(v[1])) if v[0] == "ok" else None)
             for v in (observe.verdict(a, x) for x in fixed)] for a in ancestors]

    before = parent_state()
    fails = []
    flat = R.build(resolve_flat(flat_recipe(model), model, case["chain"]))
    f, n_ok, n_rej = compare(child, flat, values, classes, "initial")
    fails += f

    def check_parent(label):
        now = parent_state()
        if now[0] != before[0]:
            diffs = [observe.snapshot_diff(x, y) for x, y in zip(before[0], now[0])]
            fails.append({"sub": "parent", "kind": "parent-tree-changed", "when": label, "detail": diffs})
        elif now[1] != before[1]:
            fails.append({"sub": "parent", "kind": "parent-verdicts-changed", "when": label})

    check_parent("after-first-use-of-child")
    for i, st_ in enumerate(case["steps"]):
        op = st_["op"]
        label = f"step{i}:{op}"
        node = model[-1]
        if op == "use_parent":
            for v in fixed:
                observe.verdict(parent, v)
        elif op == "use_child":
            for v in values:
                observe.verdict(child, v)
        elif op == "reconf_kw":
            setattr(child, st_["kw"], copy.deepcopy(st_["value"]))
            node.setdefault("kw", {})[st_["kw"]] = copy.deepcopy(st_["value"])
        elif op == "reconf_sub":
            setattr(child, st_["key"], st_["value"])
            node.setdefault("sub", {})[st_["key"]] = st_["value"]
        elif op == "assign_parent_props":
            # Child.properties = Parent.properties: the child now declares exactly the parent's properties
            # (its own copies - later in-place edits of the child must not reach the parent)
            child.properties = parent.properties
            _, _, pprops = R.flat_class(model[0], R.index(model))
            node["props"] = copy.deepcopy(pprops)
            node["props_reset"] = True
        elif op == "reconf_flag":
            # flip the required flag of a (possibly inherited) property wrapper *on the child*
            _, _, merged = R.flat_class(node, R.index(model))
            if not merged or node.get("props_reset"):
                # after `Child.properties = Parent.properties` the two classes hold the SAME wrapper
                # objects by the caller's own doing; mutating such a wrapper is not claimed by the statement
                continue
            q = copy.deepcopy(merged[st_["index"] % len(merged)])
            child.properties[q["name"]].required = st_["required"]
            q["required"] = st_["required"]
            q["element"] = {"ref": q["element"]["id"]} if "id" in q["element"] and any(
                q["element"].get("id") in R.index(n) for n in model[:-1]) else q["element"]
            props = node.setdefault("props", [])
            for j, old in enumerate(props):
                if old["name"] == q["name"]:
                    props[j]["required"] = st_["required"]
                    break
            else:
                props.append(q)
        elif op == "reconf_prop":
            p = st_["prop"]
            _, _, merged = R.flat_class(node, R.index(model))
            if any(eff(q) == eff(p) and q["name"] != p["name"] for q in merged):
                continue
            child.properties[p["name"]] = Property(
                R._build(copy.deepcopy(p["element"]), {}), required=p["required"])
            props = node.setdefault("props", [])
            for j, q in enumerate(props):
                if q["name"] == p["name"]:
                    props[j] = copy.deepcopy(p)
                    break
            else:
                props.append(copy.deepcopy(p))
        check_parent(label)
        if op.startswith("reconf"):
            flat = R.build(resolve_flat(flat_recipe(model), model, case["chain"]))
            f, _, _ = compare(child, flat, values, classes, label)
            fails += f
    overrides = any(n.get("props") or n.get("kw") or n.get("sub") for n in chain[1:])
    cls = ["levels:%d" % len(chain)] + ["step:" + s["op"] for s in case["steps"]]
    pnames = {p["name"] for p in chain[0].get("props", [])}
    if any(p["name"] in pnames for n in chain[1:] for p in n.get("props", [])):
        cls.append("overrides-property")
    if any(k in chain[0].get("kw", {}) for n in chain[1:] for k in n.get("kw", {})):
        cls.append("overrides-keyword")
    stats.case(canon(case), overrides and n_ok > 0 and n_rej > 0, cls, n=len(values),
               sample={"chain": chain, "steps": case["steps"]})
    return fails


replay_predicate = predicate


def run_shard(ctx, stats):
    return runner.hyp_run(ctx, stats, cases(), predicate, BUDGET[ctx.tier])
