"""C12 - every JSON name maps to a usable, unambiguous Python name."""
import keyword
import unicodedata

from hypothesis import strategies as st

from vlib import findings, observe, runner
from vlib.jsonvals import canon
from props.c07_defaults_descriptions import exec_module

from statham.schema.elements.meta import ObjectMeta, RESERVED_PROPERTIES
from statham.schema.parser import _parse_attribute_name, _title_format, parse_element
from statham.serializers import serialize_python

PID = "C12"
EXHAUSTIVE = "all 1,114,112 code points c as property names in contexts c, a+c, c+a, a+c+b, _+c+_ and as titles in contexts c, A+c, c+A"
RULE = (
    "sub-check A (exhaustive): every code point c (surrogates included) in the contexts c, a+c, c+a, "
    "a+c+b, _+c+_ as a property name: the attribute name given by the parser is an identifier, not a "
    "keyword, not a reserved attribute, and stable under the NFKC normalisation Python applies to "
    "identifiers in source; and as a title in c, A+c, c+A: the class name is an identifier, not a "
    "keyword, not a name generated modules import or use. Every name whose image differs from the "
    "input, plus a stratified sample, is additionally checked END TO END (parse_element -> class -> "
    "instance from {name: 1} readable under the attribute; generated module compiles, executes, and "
    "its property records the original JSON name). sub-check B (Hypothesis): strings of length 0-8 "
    "over a confusable alphabet and keyword/reserved/dunder pools, same predicates end to end. "
    "sub-check C: sets of 2-5 sibling names from collision-prone families: images pairwise distinct "
    "and the class has as many properties as the schema. sub-check D: documents with several titled "
    "objects: class names valid, pairwise distinct, module executes. non-trivial = name whose image "
    "differs from the input or that belongs to a collision family; distinct = the name itself"
)
RULE += (
    " Sub-check 'shared': one object schema with generated sibling names reached through 2-3 references of one document (property, items, anyOf member, additionalProperties; optionally the root itself a reference) via the documented loader - every occurrence must keep the JSON names and map them alike."
)
RULE += (
    ' Round 9: every pooled name also enters a class through `required` WITHOUT a declaration: the JSON name must be recorded, the attribute must be the one of the declared route, an instance must build.'
)
RULE += (
    ' Round 10: every pooled name is also declared with the trivial schema ({} / true) next to a pattern that matches it, on a model class and on an untyped element, and read back under its Python name.'
)
ASSUMPTIONS = [
    "identifier/keyword predicates are Python's own (str.isidentifier, keyword.iskeyword, compile())",
    "the exhaustive part uses _parse_attribute_name/_title_format as the fast path; the end-to-end path goes through parse_element",
]
SHARDS = {"quick": 16, "thorough": 16}
BUDGET = {"quick": 150, "thorough": 2500}
NCP = 0x110000
MODULE_NAMES = {"Any", "List", "Union", "Maybe", "Property", "Object", "AllOf", "AnyOf", "Array", "Boolean",
                "Element", "Integer", "Not", "Nothing", "Null", "Number", "OneOf", "String"}
CONTEXTS = [("{c}", "c"), ("a{c}", "a+c"), ("{c}a", "c+a"), ("a{c}b", "a+c+b"), ("_{c}_", "_+c+_")]
# "A_<c>" / "A_1<c>": the position of the de-duplication suffix, which the title formatter treats specially
TITLE_CONTEXTS = [("{c}", "c"), ("A{c}", "A+c"), ("{c}A", "c+A"), ("A_{c}", "A_+c"), ("A_1{c}", "A_1+c"), ("A_{c}_2", "A_+c+_2")]


def name_problems(name, image):
    out = []
    if not isinstance(image, str) or not image.isidentifier():
        out.append("not-an-identifier")
    elif keyword.iskeyword(image):
        out.append("keyword")
    elif image in RESERVED_PROPERTIES or image in ("__dict__", "__weakref__"):
        out.append("reserved-attribute")
    elif unicodedata.normalize("NFKC", image) != image:
        out.append("not-nfkc-stable")
    return out


def title_problems(title, image):
    out = []
    if not isinstance(image, str) or not image.isidentifier():
        out.append("class-name-not-an-identifier")
    elif keyword.iskeyword(image):
        out.append("class-name-keyword")
    elif image in MODULE_NAMES:
        out.append("class-name-shadows-module-name")
    elif unicodedata.normalize("NFKC", image) != image:
        out.append("class-name-not-nfkc-stable")
    return out


def end_to_end(name):
    """Observe the name through the public pipeline. -> list of problems."""
    schema = {"type": "object", "title": "Holder", "properties": {name: {"type": "integer"}}}
    parsed = observe.safe_parse(schema)
    if parsed[0] != "ok":
        return ["parse-" + parsed[0] + ":" + parsed[1]]
    cls = parsed[1]
    props = list(cls.properties.items())
    if len(props) != 1:
        return ["property-count-%d" % len(props)]
    attr, prop = props[0]
    out = name_problems(name, attr)
    if prop.source != name:
        out.append("json-name-not-recorded")
    got = observe.verdict(cls, {name: 1})
    if got[0] != "ok":
        out.append("instance-" + got[0] + (":" + str(got[1]) if len(got) > 1 else ""))
    else:
        try:
            if getattr(got[1], attr) != 1:
                out.append("attribute-does-not-hold-the-value")
        except Exception as exc:  # noqa: BLE001
            out.append("attribute-not-readable:" + type(exc).__name__)
        try:
            if got[1][attr] != 1:
                out.append("item-access-does-not-hold-the-value")
        except Exception as exc:  # noqa: BLE001
            out.append("item-access-fails:" + type(exc).__name__)
    # declared with the trivial schema ({} / true) while a pattern says what the member looks like: still a declared
    # property, read under its Python name (model class and untyped element)
    for trivial in ({}, True):
        for typed in (True, False):
            both = {"properties": {name: trivial}, "patternProperties": {"": {"type": "integer"}}}
            if typed:
                both.update({"type": "object", "title": "Holder"})
            pb = observe.safe_parse(both)
            if pb[0] != "ok":
                out.append("trivial-declaration+pattern:parse-" + pb[0])
                continue
            bgot = observe.verdict(pb[1], {name: 1})
            if bgot[0] != "ok":
                out.append("trivial-declaration+pattern:instance-" + bgot[0])
                continue
            try:
                held = getattr(bgot[1], attr) if typed else bgot[1][attr]
                if held != 1:
                    out.append("trivial-declaration+pattern:attribute-does-not-hold-the-value")
            except Exception as exc:  # noqa: BLE001
                out.append("trivial-declaration+pattern:not-readable-under-the-python-name:" + type(exc).__name__)
    # the other way a name enters a class: listed in `required` without being declared
    undeclared = observe.safe_parse({"type": "object", "title": "Holder", "required": [name]})
    if undeclared[0] != "ok":
        out.append("required-only:parse-" + undeclared[0] + ":" + str(undeclared[1]))
    else:
        uprops = list(undeclared[1].properties.items())
        if len(uprops) != 1 or uprops[0][1].source != name:
            out.append("required-only:json-name-not-recorded")
        elif uprops[0][0] != attr:
            out.append("required-only:attribute-name-differs-from-the-declared-route")
        else:
            ugot = observe.verdict(undeclared[1], {name: 1})
            if ugot[0] != "ok":
                out.append("required-only:instance-" + ugot[0])
    try:
        text = serialize_python(cls)
    except Exception as exc:  # noqa: BLE001
        return out + ["serialize-python-raised:" + type(exc).__name__]
    try:
        text.encode("utf8")
    except UnicodeEncodeError:
        # a lone surrogate cannot be written to a source file at all
        return out + ["module-text-not-encodable"]
    ns, problem = exec_module(text)
    if problem:
        out.append(problem["kind"])
    if ns is not None:
        gen = ns.get("Holder")
        if not isinstance(gen, ObjectMeta) or len(gen.properties) != 1:
            out.append("generated-class-broken")
        else:
            gattr, gprop = list(gen.properties.items())[0]
            if gprop.source != name:
                out.append("generated-property-lost-json-name")
            if gattr != attr:
                out.append("generated-attribute-name-differs")
    return out


def fail(sub, name, problems, **extra):
    d = {"sub": sub, "kind": sub + ":" + problems[0], "name": name, "problems": problems}
    d.update(extra)
    return d


# ------------------------------------------------------------ exhaustive
def exhaustive(ctx, stats):
    lo = NCP * ctx.shard // ctx.nshards
    hi = NCP * (ctx.shard + 1) // ctx.nshards
    failures = []
    e2e = 0
    stride = 211 if ctx.quick else 13
    for cp in range(lo, hi):
        c = chr(cp)
        for fmt, label in CONTEXTS:
            name = fmt.format(c=c)
            try:
                image = _parse_attribute_name(name)
            except Exception as exc:  # noqa: BLE001
                failures.append(fail("exhaustive-name", name, ["raised:" + type(exc).__name__], context=label, codepoint=cp))
                continue
            changed = image != name
            stats.evaluations += 1
            if changed:
                stats.nontrivial.add(cp * 8 + CONTEXTS.index((fmt, label)))
                if len(stats.samples) < 2 and cp % 4099 == 33:
                    stats.samples.append({"name": name, "attribute": image, "context": label})
            probs = name_problems(name, image)
            if not probs and (label == "a+c" and (changed and cp % 7 == 0 or cp % stride == 0)):
                e2e += 1
                probs = end_to_end(name)
            if probs:
                failures.append(fail("exhaustive-name", name, probs, context=label, codepoint=cp, image=image))
        for fmt, label in TITLE_CONTEXTS:
            title = fmt.format(c=c)
            try:
                image = _title_format(title)
            except Exception as exc:  # noqa: BLE001
                failures.append(fail("exhaustive-title", title, ["raised:" + type(exc).__name__], context=label, codepoint=cp))
                continue
            stats.evaluations += 1
            probs = title_problems(title, image)
            if probs:
                failures.append(fail("exhaustive-title", title, probs, context=label, codepoint=cp, image=image))
    stats.extra["exhaustive_codepoints"] = hi - lo
    stats.extra["end_to_end_names"] = e2e
    stats.classes["exhaustive-failures"] += len(failures)
    return failures


# ------------------------------------------------------------- generated
ALPHABET = list("ab_- 1$.²ªµǅⅧ٣") + ["\t", "\n", "́", " ", "‍", "ﬁ", "K", "é", "日", "\U0001d400", "·"]
POOL = sorted(set(keyword.kwlist) | set(dir(object)) | {"_dict", "__dict__", "__weakref__", "__module__",
                                                          "__slots__", "__class__", "properties", "default",
                                                          "inline", "self", "None_", "class_", "blank", "", "__debug__",
                                                          "__annotations__", "__qualname__", "__name__", "__mro__",
                                                          "__bases__", "__builtins__", "__file__", "__spec__"})
def library_names():
    """Names the library itself uses on model classes and instances (whatever they are in the tree under test): a
    property of that name must not get in their way."""
    try:
        probe = parse_element({"type": "object", "title": "Probe", "properties": {"p": {"type": "integer"}}})
        inst = probe({"p": 1})
        found = set(vars(inst)) | set(dir(inst)) | set(vars(probe)) | set(vars(type(inst).__mro__[1]))
    except Exception:  # noqa: BLE001
        found = set()
    return sorted(n for n in found if isinstance(n, str) and n not in ("p",))


POOL = sorted(set(POOL) | set(library_names()))


def _fullwidth(word, i):
    j = i % len(word)
    c = word[j]
    return word[:j] + chr(ord(c) + 0xFEE0) + word[j + 1:] if c.isascii() and c.isalpha() else word


# compatibility spellings that NFKC folds onto keywords / reserved attributes
POOL += sorted({_fullwidth(w, i) for w in list(keyword.kwlist) + ["_dict", "__init__", "__class__", "__dict__"]
                for i in range(len(w))})[:400] + ["cla\u017fs", "\uff3f\uff3finit__", "\u2160f"]

FAMILIES = [
    ["a b", "a_b", "a-b", "a\tb", "a  b", "a__b"],
    ["class", "class_", "class__"],
    ["1a", "_1a", "__1a"],
    ["", "blank", " ", "_"],
    ["$", "dollar_sign", "$_", "dollar-sign"],
    ["ﬁx", "fix", "ﬁx"],
    ["K", "K", "k"],
    ["__dict__", "__dict___", "__weakref__"],
    ["é", "é", "_é"],
    ["a.b", "a_full_stop_b", "a,b"],
]
names = st.one_of(
    st.text(alphabet=ALPHABET, min_size=0, max_size=8),
    st.sampled_from(POOL),
    st.tuples(st.sampled_from(["", "_", "a", "1"]), st.sampled_from(POOL), st.sampled_from(["", "_", "1", " "])).map("".join),
)


@st.composite
def gen_cases(draw):
    kind = draw(st.sampled_from(["name", "name", "siblings", "siblings", "titles"]))
    if kind == "name":
        return {"kind": kind, "name": draw(names)}
    if kind == "siblings":
        fam = draw(st.sampled_from(FAMILIES))
        pool = st.one_of(st.sampled_from(fam), st.sampled_from(fam), names)
        ns = draw(st.lists(pool, min_size=2, max_size=5, unique=True))
        excluded = 0
        if findings.is_open(PID, "sibling-image-collision"):
            # exclusion by construction: keep only names whose image is new (the probe keeps hitting the class)
            seen, kept = set(), []
            for n in ns:
                try:
                    image = _parse_attribute_name(n)
                except Exception:  # noqa: BLE001
                    image = None
                if image in seen:
                    excluded += 1
                    continue
                seen.add(image)
                kept.append(n)
            ns = kept
        if draw(st.integers(0, 2)) == 0 and ns and not any(n == "" for n in ns):
            # the same object schema reached through 2-3 references of one document (after materialize all
            # references share ONE dict, which the parser meets repeatedly): every occurrence must map its names
            # the same way and keep the JSON names
            return {"kind": "shared", "names": ns, "excluded": excluded,
                    "title": draw(st.sampled_from([None, "Thing", "my thing"])),
                    "positions": draw(st.lists(st.sampled_from(["prop", "prop", "items", "anyOf", "additional"]),
                                               min_size=2, max_size=3)),
                    "root_ref": draw(st.integers(0, 4)) == 0}
        return {"kind": kind, "names": ns, "excluded": excluded}
    if draw(st.integers(0, 3)) == 0:
        # titles that collide with the names de-duplication hands out (Foo, Foo -> Foo_1; explicit "Foo_1")
        base = draw(st.sampled_from(["Foo", "foo", "my title", "a1b"]))
        fam = [base, base, base + "_1", base + " 1", base.upper(), base + "_2", base + "_1_1", base + "_\uff11",
               base + "_\u0663", base + "_1\u00b2", base + "_\uff11_1"]
        ts = draw(st.lists(st.sampled_from(fam), min_size=2, max_size=4))
        # ... some of them written as "type": ["object"] (the same schema, another route through the parser)
        return {"kind": kind, "titles": ts, "type_lists": [draw(st.booleans()) for _ in ts]}
    if draw(st.integers(0, 4)) == 0:
        # two same-titled objects whose only difference is a pair of JSON names that look alike to
        # sloppy comparisons ("" vs "blank" share the attribute name; the JSON names differ)
        pair = draw(st.sampled_from([["", "blank"], ["class", "class_"], ["a b", "a_b"], ["1x", "_1x"],
                                     ["\ufb01x", "fix"], ["__1", "_1"]]))
        return {"kind": "dedupe", "pair": pair, "title": draw(st.sampled_from(["Foo", "my title"]))}
    titles = draw(st.lists(st.one_of(
        st.sampled_from(["string", "none", "object", "any", "list", "property", "array", "true", "日本", "123",
                         "my title", "My_Title", "a1b", "Foo", "foo", "Foo_1", "foo 1", "union", "maybe", "not"]),
        st.text(alphabet=ALPHABET + list("ABn"), min_size=0, max_size=6)), min_size=1, max_size=4))
    return {"kind": kind, "titles": titles}


def skip_known(case_names):
    return False


def shared_predicate(case, stats):
    from vlib import docs
    from statham.schema.parser import parse
    from statham.schema.exceptions import SchemaParseError

    ns = case["names"]
    stats.excluded["sibling-image-collision"] += case.get("excluded", 0)
    shared = {"type": "object", "properties": {n: {"type": "integer"} for n in ns}}
    if case.get("title"):
        shared["title"] = case["title"]
    ref = {"$ref": "#/definitions/s"}
    props = {}
    for i, pos in enumerate(case["positions"]):
        props["p%d" % i] = {"prop": ref, "items": {"type": "array", "items": ref}, "anyOf": {"anyOf": [ref, {"type": "null"}]},
                           "additional": {"type": "object", "title": "Holder%d" % i,
                                          "additionalProperties": ref}}[pos]
    doc = {"type": "object", "title": "Root", "properties": props, "definitions": {"s": shared}}
    if case.get("root_ref"):
        doc["definitions"]["root"] = {k: doc.pop(k) for k in ("type", "title", "properties")}
        doc["$ref"] = "#/definitions/root"
    stats.case("sh:" + canon([ns, case["positions"], case.get("title"), case.get("root_ref")]), True, ["gen:shared"],
               sample={"shared": ns, "positions": case["positions"]})
    if observe._has_unaddressable({"x": shared}):  # noqa: SLF001
        stats.excluded["not-loadable-through-json_ref_dict"] += 1
        return []
    try:
        loaded = docs.materialized({"a.json": doc}, "a.json")
    except Exception as exc:  # noqa: BLE001 - the loader is not statham
        stats.inconclusive["loader-error:" + type(exc).__name__] += 1
        return []
    try:
        elements = parse(loaded)
    except SchemaParseError as exc:
        return [fail("shared", ns, ["parse-refused:" + type(exc).__name__], detail=str(exc)[:200])]
    except RecursionError:
        stats.inconclusive["recursion"] += 1
        return []
    except Exception as exc:  # noqa: BLE001 - whatever else the parser raises for these names is the finding
        return [fail("shared", ns, ["parse-raised:" + type(exc).__name__], detail=str(exc)[:200])]
    root = elements[0]
    out = []
    found = []
    for i, pos in enumerate(case["positions"]):
        holder = root.properties.get("p%d" % i)
        if holder is None:
            out.append(fail("shared", ns, ["position-missing"], position=i))
            continue
        el = holder.element
        if pos == "items":
            el = el.items
        elif pos == "anyOf":
            el = el.elements[0]
        elif pos == "additional":
            el = el.additionalProperties
        found.append((i, pos, el))
    for i, pos, cls in found:
        if not isinstance(cls, ObjectMeta):
            out.append(fail("shared", ns, ["occurrence-is-not-a-class"], position=[i, pos], got=repr(cls)[:100]))
            continue
        sources = sorted(p.source for p in cls.properties.values())
        if sources != sorted(ns):
            out.append(fail("shared", ns, ["json-names-lost-on-a-repeated-occurrence"], position=[i, pos],
                            sources=sources, attributes=sorted(cls.properties)))
            continue
        for attr in cls.properties:
            probs = name_problems("", attr)
            if probs:
                out.append(fail("shared", ns, probs, attribute=attr, position=[i, pos]))
        value = {n: k for k, n in enumerate(ns)}
        got = observe.verdict(cls, value)
        if got[0] != "ok":
            out.append(fail("shared", ns, ["instance-" + got[0]], position=[i, pos]))
        else:
            for attr, prop in cls.properties.items():
                if getattr(got[1], attr, None) != value[prop.source]:
                    out.append(fail("shared", ns, ["attribute-holds-a-sibling-value"], attribute=attr,
                                    position=[i, pos]))
                    break
    classes = {}
    for _, _, cls in found:
        if isinstance(cls, ObjectMeta):
            classes.setdefault(cls.__name__, []).append(cls)
    for name, group in classes.items():
        if any(g != group[0] for g in group[1:]):
            out.append(fail("shared", ns, ["class-names-not-distinct"], class_name=name))
    return out


def predicate(case, stats):
    kind = case["kind"]
    if kind == "name":
        name = case["name"]
        probs = end_to_end(name)
        try:
            changed = _parse_attribute_name(name) != name
        except Exception:  # noqa: BLE001
            changed = True
        stats.case("n:" + canon(name), changed, ["gen:name"], sample={"name": name})
        return [fail("name", name, probs)] if probs else []
    if kind == "siblings":
        ns = case["names"]
        stats.excluded["sibling-image-collision"] += case.get("excluded", 0)
        schema = {"type": "object", "title": "Holder", "properties": {n: {"type": "integer"} for n in ns}}
        parsed = observe.safe_parse(schema)
        stats.case("s:" + canon(ns), True, ["gen:siblings"], sample={"siblings": ns})
        if parsed[0] != "ok":
            return [fail("siblings", ns, ["parse-" + parsed[0] + ":" + parsed[1]])]
        cls = parsed[1]
        out = []
        sources = sorted(p.source for p in cls.properties.values())
        if len(cls.properties) != len(ns) or sources != sorted(ns):
            images = {}
            for n in ns:
                images.setdefault(_parse_attribute_name(n), []).append(n)
            out.append(fail("siblings", ns, ["sibling-names-collapsed"],
                            collisions={k: v for k, v in images.items() if len(v) > 1},
                            attributes=sorted(cls.properties)))
        for attr in cls.properties:
            probs = name_problems("", attr)
            if probs:
                out.append(fail("siblings", ns, probs, attribute=attr))
        if not out:
            value = {n: i for i, n in enumerate(ns)}
            got = observe.verdict(cls, value)
            if got[0] != "ok":
                out.append(fail("siblings", ns, ["instance-" + got[0]]))
            else:
                for attr, prop in cls.properties.items():
                    if getattr(got[1], attr, None) != value[prop.source]:
                        out.append(fail("siblings", ns, ["attribute-holds-a-sibling-value"], attribute=attr))
                        break
        return out
    if kind == "shared":
        return shared_predicate(case, stats)
    if kind == "dedupe":
        first, second = case["pair"]
        schema = {"type": "object", "title": "Root", "properties": {
            "p": {"type": "object", "title": case["title"], "properties": {first: {"type": "string"}}},
            "q": {"type": "object", "title": case["title"], "properties": {second: {"type": "string"}}}}}
        stats.case("d:" + canon(case["pair"]), True, ["gen:dedupe"], sample={"dedupe": case["pair"]})
        parsed = observe.safe_parse(schema)
        if parsed[0] != "ok":
            return [fail("dedupe", case["pair"], ["parse-" + parsed[0] + ":" + parsed[1]])]
        root = parsed[1]
        out = []
        for prop_name, json_name in (("p", first), ("q", second)):
            cls = root.properties[prop_name].element
            sources = [p.source for p in cls.properties.values()]
            if sources != [json_name]:
                out.append(fail("dedupe", case["pair"], ["class-shared-between-different-json-names"],
                                holder=prop_name, sources=sources))
            got = observe.verdict(root, {prop_name: {json_name: 5}})
            if got[0] == "ok":
                out.append(fail("dedupe", case["pair"], ["wrong-typed-member-accepted"], holder=prop_name))
        if root.properties["p"].element.__name__ == root.properties["q"].element.__name__ and \
                root.properties["p"].element is not root.properties["q"].element:
            out.append(fail("dedupe", case["pair"], ["class-names-not-distinct"]))
        return out
    # titles: one document, several object schemas
    titles = case["titles"]
    schema = {"type": "object", "title": "Root", "properties": {
        "p%d" % i: {"type": (["object"] if (case.get("type_lists") or [])[i:i + 1] == [True] else "object"), "title": t,
                    "properties": {"q%d" % i: {"type": "string"}}}
        for i, t in enumerate(titles)}}
    stats.case("t:" + canon(titles), True, ["gen:titles"], sample={"titles": titles})
    usable = [t for t in titles if t]
    if len(usable) != len(titles):
        return []  # an empty title is "no title": the parser then demands an auto-title (documented)
    parsed = observe.safe_parse(schema)
    if parsed[0] != "ok":
        return [fail("titles", titles, ["parse-" + parsed[0] + ":" + parsed[1]])]
    root = parsed[1]
    out = []
    names_ = [root.__name__] + [p.element.__name__ for p in root.properties.values()]
    if len(set(names_)) != len(names_):
        out.append(fail("titles", titles, ["class-names-not-distinct"], classes=names_))
    for t, n in zip(["Root"] + titles, names_):
        probs = title_problems(t, n)
        if probs:
            out.append(fail("titles", titles, probs, title=t, class_name=n))
    try:
        text = serialize_python(root)
        text.encode("utf8")
    except UnicodeEncodeError:
        return out
    except Exception as exc:  # noqa: BLE001
        return out + [fail("titles", titles, ["serialize-python-raised:" + type(exc).__name__])]
    ns, problem = exec_module(text)
    if problem:
        out.append(fail("titles", titles, [problem["kind"]], detail=problem.get("detail"), classes=names_))
    elif ns is not None:
        for n in names_:
            if not isinstance(ns.get(n), ObjectMeta):
                out.append(fail("titles", titles, ["generated-class-missing"], class_name=n))
                break
    return out


replay_predicate = predicate


@findings.classifier(PID, "sibling-image-collision")
def _sibling_collision(case, failure):
    """Two sibling JSON names with the same Python image: the later replaces the earlier."""
    return (case.get("kind") == "siblings" and failure.get("kind") == "siblings:sibling-names-collapsed"
            and bool(failure.get("collisions")))


PROBES = {
    "sibling-image-collision": [
        {"kind": "siblings", "names": ["a b", "a_b", "a-b"]},
        {"kind": "siblings", "names": ["class", "class_"]},
    ]
}


def run_shard(ctx, stats):
    failures = exhaustive(ctx, stats)
    unknown = []
    for f in failures:
        case = {"kind": "name", "name": f["name"]} if f["sub"] == "exhaustive-name" else {"kind": "titles", "titles": [f["name"]]}
        name = findings.classify(PID, case, f)
        if name:
            stats.known[name] += 1
        else:
            unknown.append((case, f))
    if unknown:
        stats.extra["exhaustive_complete"] = 0
        stats.classes["exhaustive-unexplained-failures"] += len(unknown)
        case, f = unknown[0]
        f = dict(f, total_unexplained_in_shard=len(unknown),
                 more=[u[1]["name"] for u in unknown[1:20]])
        return {"case": case, "failures": [f]}
    stats.extra["exhaustive_complete"] = 1
    # every pooled name (keywords, reserved attributes, the names the library itself uses on classes and instances)
    # goes through the whole pipeline once, deterministically: shard k takes every 16th
    for name in POOL[ctx.shard::max(ctx.nshards, 1)]:
        case = {"kind": "name", "name": name}
        unknown = runner.triage(PID, case, predicate(case, stats), stats)
        if unknown:
            return {"case": case, "failures": unknown}
    stats.extra["pooled_names_end_to_end"] = len(POOL)
    return runner.hyp_run(ctx, stats, gen_cases(), predicate, BUDGET[ctx.tier])
