"""C09 - code generation and serialization are deterministic across processes."""
import copy
import json
import os
import shutil
import subprocess
import sys
import tempfile

from hypothesis import strategies as st

from vlib import docs, repo, runner
from vlib import recipes as R
from vlib.jsonvals import canon, h64

PID = "C09"
RULE = (
    "case = batch of 12 document sets (generic multi-file documents, and documents biased to >=2 "
    "DIFFERENT object schemas whose titles format to the same class name placed under different "
    "composition keywords / properties / definitions of one parent) written to a scratch directory; "
    "a driver subprocess is started once per hash seed (PYTHONHASHSEED = one seed per distinct "
    "iteration order of small string sets among seeds 0..63, + seeds derived from VERIF_SEED, + one "
    "seed twice for process-instance variation) and emits sha256(main(uri)), "
    "sha256(json.dumps(serialize_json(*parse(materialize(...))))) and the class-name list per "
    "document; the literal CLI `python -m statham --input` is compared byte-wise for one document per "
    "batch; all outputs for one document must be identical; evaluations = documents x processes; "
    "non-trivial = document with a repeated formatted title on distinct schemas or >=3 classes; "
    "distinct = canon(files)"
)
RULE += (
    ' The last driver process of every batch generates the documents in reverse order (same hash seed as the first): the output for a document must not depend on what the process generated before it.'
)
RULE += (
    ' Every batch also carries 8 models declared with the DSL (generic recipes, and models that name required keys in both '
    'documented ways at once - the `required` keyword and Property(required=True) flags - with 2..5 flagged properties; '
    'subclasses that declare one or two of 3..6 inherited properties again); '
    'a second driver builds them and digests serialize_json / serialize_python under every hash seed of the batch (the last '
    'process in reverse order).'
)
RULE += (
    ' Round 10: the DSL models include subclasses that declare one or two of 3..6 inherited properties again.'
)
ASSUMPTIONS = [
    "a finite set of hash seeds: covering set for the iteration orders of 3- and 4-element string sets among seeds 0..63, plus derived seeds",
    "subprocesses import statham from the working tree under test (VERIF_REPO_DIR)",
]
BUDGET = {"quick": 4, "thorough": 40}
BATCH = 12
DRIVER = os.path.join(os.path.dirname(os.path.dirname(os.path.abspath(__file__))), "vlib", "c09_driver.py")
PY = sys.executable

_COVER = None


def covering_seeds():
    """One hash seed per distinct iteration order of small string sets (seeds 0..63)."""
    global _COVER
    if _COVER is not None:
        return _COVER
    code = ("import json;print(json.dumps([list(set(('anyOf','oneOf','allOf'))),"
            "list(set(('anyOf','oneOf','allOf','not'))),list({'Foo','Bar','Baz'})]))")
    orders = {}
    procs = []
    for seed in range(64):
        env = dict(os.environ, PYTHONHASHSEED=str(seed))
        procs.append((seed, subprocess.Popen([PY, "-c", code], stdout=subprocess.PIPE, env=env)))
    for seed, p in procs:
        out = p.communicate()[0].decode()
        key = json.dumps(json.loads(out)[0])
        orders.setdefault(key, seed)
    _COVER = sorted(orders.values())
    return _COVER


def obj(title, prop):
    return {"type": "object", "title": title, "properties": {prop: {"type": "string"}}}


@st.composite
def collision_doc(draw):
    """Different object schemas, same formatted title, in positions whose parse order could vary."""
    variants = draw(st.sampled_from([["Foo", "Foo", "Foo"], ["my title", "My_Title", "my-title"],
                                     ["Foo", "foo", "FOO"], ["a1b", "A1b", "a1-b"]]))
    kws = draw(st.lists(st.sampled_from(["anyOf", "oneOf", "allOf", "not"]), min_size=2, max_size=4, unique=True))
    holder = {}
    for i, kw in enumerate(kws):
        o = obj(variants[i % 3], "p%d" % i)
        holder[kw] = o if kw == "not" else [o] + ([{"type": "string"}] if draw(st.booleans()) else [])
    where = draw(st.sampled_from(["root", "property", "items", "definitions"]))
    if where == "root":
        doc = holder
    elif where == "property":
        doc = {"type": "object", "title": "Root", "properties": {draw(st.sampled_from(["x", "class", "zz"])): holder}}
    elif where == "items":
        doc = {"type": "array", "items": holder}
    else:
        doc = {"type": "object", "title": "Root",
               "properties": {"x": {"$ref": "#/definitions/h"}, "y": obj(variants[0], "q")},
               "definitions": {"h": holder, "k": obj(variants[1], "r")}}
    return {"files": {"a.json": doc}, "root": "a.json", "collision": True}


def retitled(doc, salt):
    """The same document with every NESTED object schema titled differently (root untouched): anything the process
    remembers about the first document's classes by name/shape would now be stale."""
    names = ["Client", "Customer", "Gadget", "Part", "Thing_1", "Widget"]
    count = [salt]

    def visit(node, top):
        if isinstance(node, list):
            return [visit(x, False) for x in node]
        if not isinstance(node, dict):
            return node
        out = {}
        for k, v in node.items():
            if k in ("enum", "const", "default"):
                out[k] = copy.deepcopy(v)
            else:
                out[k] = visit(v, False)
        if not top and out.get("type") == "object":
            count[0] += 1
            out["title"] = names[count[0] % len(names)]
        return out

    files = {name: visit(body, name == "a.json") for name, body in doc["files"].items()}
    return {**{k: v for k, v in doc.items() if k != "files"}, "files": files, "variant_of_earlier": True}


@st.composite
def batches(draw):
    out = []
    for _ in range(BATCH):
        r = draw(st.integers(0, 5))
        if r <= 1:
            out.append(draw(collision_doc()))
        elif r == 2 and out:
            # a near-copy of an earlier member of the batch: same root, same shapes, other nested class names
            out.append(retitled(draw(st.sampled_from(out)), draw(st.integers(0, 5))))
        else:
            out.append(draw(docs.documents(docs.DCfg())))
    models = [draw(required_both_ways()) if i % 4 == 1 else draw(overriding_subclass()) if i % 4 == 3
              else draw(R.recipes(DSL_CFG)) for i in range(8)]
    return {"docs": out, "recipes": models}


DSL_DRIVER = os.path.join(os.path.dirname(DRIVER), "c09_dsl_driver.py")
DSL_CFG = R.RCfg(depth=2, nothing=False)


@st.composite
def required_both_ways(draw):
    """A model that names required keys through the `required` keyword AND through Property(required=True) flags (what a
    parsed document never does: the parser turns the list into flags)."""
    names = draw(st.lists(st.sampled_from(["name", "channel", "owner", "region", "build", "a", "b", "zz", "x1"]),
                          min_size=2, max_size=5, unique=True))
    listed = draw(st.lists(st.sampled_from(["version", "id"] + names[:1]), min_size=1, max_size=2, unique=True))
    kind = draw(st.sampled_from(["Object", "Element"]))
    node = {"id": 1, "kind": kind, "kw": {"required": listed}, "props": [
        {"name": n, "source": None, "required": draw(st.integers(0, 4)) != 0,
         "element": {"id": 10 + i, "kind": draw(st.sampled_from(["String", "Integer", "Element"])), "kw": {}}}
        for i, n in enumerate(names)]}
    if kind == "Object":
        node["name"] = "Release"
    return node


@st.composite
def overriding_subclass(draw):
    """A subclass that declares one (or two) of its parent's properties AGAIN and inherits the others: the order of the
    merged properties is the parent's, whatever the names hash to."""
    names = draw(st.lists(st.sampled_from(["name", "channel", "owner", "region", "build", "a", "b", "zz", "x1", "notes"]),
                          min_size=3, max_size=6, unique=True))
    parent = {"id": 1, "kind": "Object", "name": "Base", "kw": {}, "props": [
        {"name": n, "source": None, "required": draw(st.booleans()),
         "element": {"id": 10 + i, "kind": draw(st.sampled_from(["String", "Integer", "Element"])), "kw": {}}}
        for i, n in enumerate(names)]}
    again = draw(st.lists(st.sampled_from(names), min_size=1, max_size=2, unique=True))
    child = {"id": 2, "kind": "Object", "name": "Child", "kw": {}, "base": parent, "props": [
        {"name": n, "source": None, "required": draw(st.booleans()), "element": {"id": 30 + i, "kind": "Number", "kw": {}}}
        for i, n in enumerate(again)]}
    if draw(st.booleans()):
        child["props"].append({"name": "extra", "source": None, "required": False,
                               "element": {"id": 40, "kind": "Boolean", "kw": {}}})
    return child


def run_dsl_driver(path, seed, order="forward"):
    env = dict(os.environ, PYTHONHASHSEED=str(seed))
    env.pop("PYTHONPATH", None)
    p = subprocess.run([PY, "-W", "ignore", DSL_DRIVER, os.path.dirname(os.path.dirname(DRIVER)), repo.REPO_DIR, path, order],
                       stdout=subprocess.PIPE, stderr=subprocess.PIPE, env=env, timeout=600)
    if p.returncode != 0:
        raise runner.HarnessError(f"dsl driver failed under seed {seed}: {p.stderr.decode()[-800:]}")
    return json.loads(p.stdout.decode())


def run_driver(scratch, seed, order="forward"):
    env = dict(os.environ, PYTHONHASHSEED=str(seed))
    env.pop("PYTHONPATH", None)
    p = subprocess.run([PY, "-W", "ignore", DRIVER, repo.REPO_DIR, scratch, order], stdout=subprocess.PIPE,
                       stderr=subprocess.PIPE, env=env, timeout=600)
    if p.returncode != 0:
        raise runner.HarnessError(f"driver failed under seed {seed}: {p.stderr.decode()[-800:]}")
    return json.loads(p.stdout.decode())


def run_cli(path, seed):
    env = dict(os.environ, PYTHONHASHSEED=str(seed), PYTHONPATH=repo.REPO_DIR)
    p = subprocess.run([PY, "-W", "ignore", "-m", "statham", "--input", path], stdout=subprocess.PIPE,
                       stderr=subprocess.PIPE, env=env, timeout=600, cwd=repo.REPO_DIR)
    return p.returncode, p.stdout


def title_classes(files):
    titles = []

    def walk(n):
        if isinstance(n, dict):
            if n.get("type") == "object" and isinstance(n.get("title"), str):
                titles.append("".join(c for c in n["title"].lower() if c.isalnum()))
            for v in n.values():
                walk(v)
        elif isinstance(n, list):
            for v in n:
                walk(v)

    walk(files)
    return titles


def seeds_for(case_seed):
    extra = [100 + (case_seed * 7919) % 4000, 5000 + (case_seed * 104729) % 4000]
    cover = covering_seeds()
    return cover + extra + [cover[0]]  # the last one repeats a seed: process-instance variation


def predicate(case, stats, seed_salt=1):
    scratch = tempfile.mkdtemp(prefix="c09_")
    fails = []
    try:
        for i, doc in enumerate(case["docs"]):
            docs.write_files(doc["files"], os.path.join(scratch, "doc%02d" % i))
        seeds = seeds_for(int(os.environ.get("VERIF_SEED", "1") or 1) + seed_salt)
        # the last process (a repeated hash seed) generates the documents in the OPPOSITE order: what a process
        # did earlier is not part of "the input document"
        outputs = [(s, run_driver(scratch, s, "reverse" if k == len(seeds) - 1 else "forward"))
                   for k, s in enumerate(seeds)]
        base_seed, base = outputs[0]
        for i, doc in enumerate(case["docs"]):
            name = "doc%02d" % i
            titles = title_classes(doc["files"])
            repeated = len(titles) != len(set(titles))
            n_classes = len(base[name].get("classes", []))
            stats.case(canon(doc["files"]), repeated or n_classes >= 3,
                       (["repeated-title"] if repeated else []) + (["collision-doc"] if doc.get("collision") else []),
                       n=len(seeds), sample={"files": doc["files"], "classes": base[name].get("classes")})
            for k, (s, out) in enumerate(outputs[1:], 1):
                if out[name] != base[name]:
                    diff = [kk for kk in base[name] if base[name][kk] != out[name].get(kk)]
                    history = k == len(outputs) - 1 and all(o[name] == base[name] for _, o in outputs[1:-1])
                    fails.append({"sub": "driver",
                                  "kind": ("output-depends-on-process-history:" if history else
                                           "output-depends-on-hash-seed:") + "+".join(diff),
                                  "doc": i, "replay_case": {"docs": case["docs"] if history else [doc]},
                                  "hash_seeds": [base_seed, s], "detail": [base[name], out[name]]})
                    break
        # models declared with the DSL
        if case.get("recipes"):
            path = os.path.join(scratch, "recipes.json")
            with open(path, "w") as fh:
                json.dump(case["recipes"], fh)
            dsl = [(s, run_dsl_driver(path, s, "reverse" if k == len(seeds) - 1 else "forward"))
                   for k, s in enumerate(seeds)]
            for i, recipe in enumerate(case["recipes"]):
                flagged = sum(1 for p in recipe.get("props", []) if p.get("required"))
                both = bool(recipe.get("kw", {}).get("required")) and flagged >= 2
                stats.case(canon(recipe), both or len(R.index(recipe)) >= 4,
                           ["dsl-model"] + (["required-listed-and-flagged"] if both else []), n=len(seeds),
                           sample={"recipe": recipe})
                for k, (s, out) in enumerate(dsl[1:], 1):
                    if out[i] != dsl[0][1][i]:
                        diff = [kk for kk in dsl[0][1][i] if dsl[0][1][i][kk] != out[i].get(kk)]
                        fails.append({"sub": "dsl", "kind": "dsl-output-depends-on-hash-seed:" + "+".join(diff),
                                      "replay_case": {"docs": [], "recipes": [recipe]}, "hash_seeds": [dsl[0][0], s],
                                      "detail": [dsl[0][1][i], out[i]]})
                        break
            stats.extra["subprocesses"] = stats.extra.get("subprocesses", 0) + len(seeds)
        # the literal CLI on the first document
        cli = [run_cli(os.path.join(scratch, "doc00", "a.json"), s) for s in (seeds[0], seeds[1], seeds[-2])] \
            if case["docs"] else []
        if len({c for c in cli}) > 1:
            fails.append({"sub": "cli", "kind": "cli-stdout-depends-on-hash-seed", "doc": 0,
                          "replay_case": {"docs": [case["docs"][0]]}, "hash_seeds": [seeds[0], seeds[1], seeds[-2]]})
        stats.extra["subprocesses"] = stats.extra.get("subprocesses", 0) + len(seeds) + 3
        stats.extra["hash_seeds"] = {str(s): 1 for s in seeds}
    finally:
        shutil.rmtree(scratch, ignore_errors=True)
    return fails


def replay_predicate(case, stats):
    if "docs" not in case and "files" in case:
        case = {"docs": [case]}
    return predicate(case, stats)


def run_shard(ctx, stats):
    return runner.hyp_run(ctx, stats, batches(), predicate, BUDGET[ctx.tier])
