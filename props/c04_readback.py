"""C04 - an accepted value comes back complete and unaltered inside the model."""
import copy
import sys

from hypothesis import strategies as st

from vlib import common_classes as cc, findings, observe, recipes as R, runner
from vlib import schemas as sg
from vlib.jsonvals import canon
from vlib.readback import declared_names, readback
from vlib.values_for import instance_of, perturb

from statham.schema.constants import NotPassed  # (after vlib: vlib.repo decides which tree `statham` is)

PID = "C04"
RULE = (
    "case = container-biased schema from the Draft-6 grammar (parsed) or DSL recipe with renamed "
    "properties x 5-8 values from the constructive sampler (enriched with additional / pattern "
    "keys); every ACCEPTED value is read back member by member through the public access paths "
    "(attribute under the Python name for declared properties of model instances, item access under "
    "the JSON name otherwise, keys of untyped results under Python or JSON name), arrays index-wise, "
    "scalars unchanged except int -> equal float; then the result's members are enumerated and each "
    "must be explained by an input member or be a declared property; non-trivial = accepted value "
    "with a container of >=2 members or depth >=2; distinct = canon(schema/recipe, value)"
)
RULE += (
    ' Parsed-mode schemas go through the documented loader a quarter of the time.'
)
RULE += (
    ' Round 9: every JSON name declared under `properties` must be the source of exactly one property of the parsed element (root level); a directed family writes an object schema with renamed properties so that the parser goes over it more than once (one-element type list, allOf / anyOf / not next to `properties`); the inheritance family (base + subclass) joined the recipes.'
)
RULE += (
    ' Round 10: number positions are also wrapped next to a trivial composition member (anyOf [S, true] / [S, {}], oneOf [S, false] / [false, S], allOf [S, true] / [{}, S] / [S]): S still builds the result and its declared names are read as S declares them.'
)
ASSUMPTIONS = [
    "for untyped (dict) results the governing element is not known to the walker: a member may be found under its JSON name or under the Python name of any property with that JSON name in the tree",
    "values of declared-but-omitted properties are C05's subject (only their presence is tolerated here)",
]
BUDGET = {"quick": 550, "thorough": 5000}

observe.register_formats()
SCFG = sg.Cfg(depth=3, object_bias=True)
RCFG = R.RCfg(depth=3, kw_max=1, literal_constraints=False, nothing=False)


def depth_of(v):
    if isinstance(v, dict):
        return 1 + max([depth_of(x) for x in v.values()] or [0])
    if isinstance(v, list):
        return 1 + max([depth_of(x) for x in v] or [0])
    return 0


def members(v):
    if isinstance(v, dict):
        return max([len(v)] + [members(x) for x in v.values()])
    if isinstance(v, list):
        return max([len(v)] + [members(x) for x in v])
    return 0


@st.composite
def cases(draw):
    if draw(st.booleans()):
        schema = draw(sg.schemas(SCFG))
        case = {"mode": "parsed", "schema": schema, "pipeline": draw(st.sampled_from(observe.PIPELINES))}
        names = cc.renamed_pynames_schema(schema)
    elif draw(st.integers(0, 9)) == 0:
        # an object schema with renamed property names, SPELLED so that the parser goes over it more than once (a type
        # list, composition keywords next to `properties`): the same schema as its plain spelling
        names = draw(st.lists(st.sampled_from(["a-b", "class", "1st", "$id", "x y", "plain"]), min_size=1, max_size=3,
                              unique=True))
        obj = {"type": "object", "title": "Line",
               "properties": {n: {"type": draw(st.sampled_from(["number", "string", "integer"]))} for n in names}}
        spelling = draw(st.sampled_from(["plain", "type-list", "type-list", "allOf-sibling", "anyOf-sibling", "not-sibling"]))
        if spelling == "type-list":
            obj["type"] = ["object"]
        elif spelling == "allOf-sibling":
            obj["allOf"] = [{}]
        elif spelling == "anyOf-sibling":
            obj["anyOf"] = [{"minProperties": 0}, {"type": "null"}]
        elif spelling == "not-sibling":
            obj["not"] = {"type": "null"}
        sample = {"number": 1, "string": "s", "integer": 2}
        full = {n: sample[obj["properties"][n]["type"]] for n in names}
        return {"mode": "parsed", "schema": obj, "values": [full, {names[0]: full[names[0]]}, {}, {**full, "zz": None}],
                "excluded": 0, "pipeline": draw(st.sampled_from(observe.PIPELINES)), "spelling": spelling}
    elif draw(st.integers(0, 7)) == 0:
        recipe, fam_values = draw(R.inheritance_family())
        return {"mode": "dsl", "recipe": recipe, "values": fam_values, "excluded": 0}
    else:
        recipe = draw(R.recipes(RCFG))
        schema = R.to_schema(recipe)
        case = {"mode": "dsl", "recipe": recipe}
        names = cc.renamed_pynames_recipe(recipe) | cc.renamed_pynames_schema(schema)
    sdict = schema if isinstance(schema, dict) else {}
    values = []
    for _ in range(draw(st.integers(5, 8))):
        v = draw(instance_of(sdict))
        if draw(st.integers(0, 3)) == 0:
            v = draw(perturb(v))
        values.append(v)
    excluded = [0]
    if findings.is_open(PID, "pyname-key-collision"):
        values = [cc.strip_keys(v, names, excluded) for v in values]
    case["values"] = values
    case["excluded"] = excluded[0]
    return case


def build(case):
    if case["mode"] == "parsed":
        parsed = observe.safe_parse(case["schema"], case.get("pipeline"))
        return parsed[1] if parsed[0] == "ok" else None
    return R.build(case["recipe"])


# integers that have an equal float, small and beyond 2**53 (exactly representable): "an integer accepted by a number
# schema comes back as the equal float" - as a float, not merely as something equal to it
EXACT_INTS = [0, 1, -7, 2 ** 31, 2 ** 53, -(2 ** 53), 2 ** 60, -(2 ** 63), 10 ** 18, 10 ** 22, 3 * 2 ** 70]


@st.composite
def number_position_cases(draw):
    where = draw(st.sampled_from(["root", "items", "property", "additional", "tuple", "anyOf", "pattern-over-declared",
                                  "pattern-over-declared"]))
    num = {"type": "number"}
    if draw(st.integers(0, 3)) == 0:
        num = {"type": "number", "minimum": -(2 ** 80)}
    ints = draw(st.lists(st.sampled_from(EXACT_INTS), min_size=1, max_size=3))
    if where == "root":
        schema, values, paths = num, ints, [[]]
    elif where == "items":
        schema, values, paths = {"type": "array", "items": num}, [ints, ints[:1]], [["*"]]
    elif where == "property":
        schema = {"type": "object", "title": "N", "properties": {"x": num, "class": num}}
        values, paths = [{"x": ints[0], "class": ints[-1]}, {"x": ints[0]}], [["x"], ["class"]]
    elif where == "additional":
        schema = {"type": "object", "title": "N", "additionalProperties": num}
        values, paths = [{"k": ints[0], "l": ints[-1]}], [["k"], ["l"]]
    elif where == "tuple":
        schema = {"type": "array", "items": [{"type": "string"}, num], "additionalItems": num}
        values, paths = [["s"] + ints, ["s", ints[0]]], [["1+"]]
    elif where == "anyOf":
        schema, values, paths = {"anyOf": [{"type": "string"}, num]}, ints + ["s"], [[]]
    else:
        # the NUMBER schema reaches the member through patternProperties; the declared property says nothing about
        # its type (untyped, a `not`, a composition of untyped schemas) - "which branch builds the result"
        declared = draw(st.sampled_from([{}, {"not": {"type": "string"}}, {"anyOf": [{}, {"minimum": -(2 ** 90)}]},
                                         {"allOf": [{"not": {"type": "null"}}]}, {"minimum": -(2 ** 90)}]))
        schema = {"type": "object", "title": "N", "properties": {"ab": declared}, "patternProperties": {"^a": num}}
        values, paths = [{"ab": ints[0]}, {"ab": ints[-1], "ac": ints[0]}], [["ab"], ["ac"]]
    wrap = draw(st.sampled_from([None, None, None, "anyOf-then-true", "anyOf-then-empty", "oneOf-with-false", "oneOf-false-first",
                                 "allOf-with-true", "allOf-true-first", "allOf-single"]))
    if wrap is not None:
        # next to a TRIVIAL member (true / {} / false) the schema above still builds the result: it is the first
        # member of the anyOf to accept, the only one of the oneOf, the most specific one of the allOf
        schema = {"anyOf-then-true": {"anyOf": [schema, True]}, "anyOf-then-empty": {"anyOf": [schema, {}]},
                  "oneOf-with-false": {"oneOf": [schema, False]}, "oneOf-false-first": {"oneOf": [False, schema]},
                  "allOf-with-true": {"allOf": [schema, True]}, "allOf-true-first": {"allOf": [{}, schema]},
                  "allOf-single": {"allOf": [schema]}}[wrap]
    return {"mode": "number-positions", "schema": schema, "values": values, "paths": paths, "wrap": wrap,
            "pipeline": draw(st.sampled_from(observe.PIPELINES))}


def number_position_predicate(case, stats):
    parsed = observe.safe_parse(case["schema"], case.get("pipeline"))
    if parsed[0] != "ok":
        stats.case(canon(case), False, ["parse-refused"])
        return [{"sub": "parse", "kind": "parse-refused:" + str(parsed[1])}]
    element = parsed[1]
    fails = []
    for value in case["values"]:
        got = observe.verdict(element, value)
        stats.case(canon([case["schema"], value]), True, ["mode:number-positions", "verdict:" + got[0]],
                   sample={"schema": case["schema"], "value": value})
        if got[0] != "ok":
            if not isinstance(value, str):
                fails.append({"sub": "accept", "kind": "number-schema-rejects-integer", "value": value})
            continue
        result = got[1]
        for path in case["paths"]:
            if path == []:
                pairs = [(value, result)]
            elif path == ["*"]:
                pairs = list(zip(value, list(result)))
            elif path == ["1+"]:
                pairs = list(zip(value[1:], list(result)[1:]))
            else:
                key = path[0]
                if not isinstance(value, dict) or key not in value:
                    continue
                by_source, _ = declared_names(element)
                names = list(by_source.get(key, {key}))
                if case.get("wrap"):
                    names = [_image(key)] + names  # (the element is the composition: its member declares the names)
                out = None
                for n in names:
                    try:
                        out = getattr(result, n) if hasattr(result, n) and not isinstance(result, dict) else result[n]
                        break
                    except (KeyError, AttributeError, TypeError):
                        continue
                pairs = [(value[key], out)]
            for given, back in pairs:
                if isinstance(given, int) and not isinstance(given, bool):
                    if type(back) is not float or back != given:
                        fails.append({"sub": "number", "kind": "integer-under-number-schema-not-returned-as-the-equal-float",
                                      "given": given, "got": repr(back)[:60], "got_type": type(back).__name__,
                                      "path": path})
    return fails


def _image(name):
    from statham.schema.parser import _parse_attribute_name

    try:
        return _parse_attribute_name(name)
    except Exception:  # noqa: BLE001
        return name


def predicate(case, stats):
    if case.get("mode") == "number-positions":
        return number_position_predicate(case, stats)
    element = build(case)
    if element is None:
        stats.case(canon(case), False, ["parse-refused"])
        return []
    stats.excluded["pyname-key-collision"] += case.get("excluded", 0)
    by_source, pynames = declared_names(element)
    fails = []
    key = case.get("schema", case.get("recipe"))
    if case["mode"] == "parsed" and isinstance(case["schema"], dict) and isinstance(case["schema"].get("properties"), dict) \
            and not isinstance(getattr(element, "properties", None), (NotPassed, type(None))):
        # which members are DECLARED is what the schema says (the walker otherwise takes the element's word for it):
        # every JSON name under `properties` must still be known to the element under that name
        sources = {(p.source if p.source is not None else n) for n, p in element.properties.items()}
        lost = [n for n in case["schema"]["properties"] if n not in sources]
        if lost and not any(findings.classify(PID, case, {"sub": "readback", "value": {n: None}}) for n in lost):
            images = {}
            for n in case["schema"]["properties"]:
                images.setdefault(_image(n), []).append(n)
            if not any(len(v) > 1 for v in images.values()):  # (sibling names with one image: C12's open finding)
                fails.append({"sub": "declared", "kind": "declared-json-name-unknown-to-the-element", "lost": lost,
                              "sources": sorted(map(str, sources))})
    for value in case["values"]:
        got = observe.verdict(element, value)
        if got[0] != "ok":
            stats.case(canon([key, value]), False, ["mode:" + case["mode"], "verdict:" + got[0]])
            continue
        problems = readback(copy.deepcopy(value), got[1], by_source, pynames)
        classes = ["mode:" + case["mode"], "verdict:ok", "depth:%d" % min(depth_of(value), 4)]
        if isinstance(value, dict) and any(k in by_source and by_source[k] != {k} for k in value):
            classes.append("renamed-member")
        if isinstance(value, dict) and any(k not in by_source for k in value):
            classes.append("undeclared-member")
        stats.case(canon([key, value]), members(value) >= 2 or depth_of(value) >= 2, classes,
                   sample={"mode": case["mode"], "schema_or_recipe": key, "value": value,
                           "result": observe.plain(got[1])})
        if problems:
            fails.append({"sub": "readback", "kind": "readback:" + problems[0]["problem"].split("-")[0] + "-" +
                          problems[0]["problem"].split("-")[1] if "-" in problems[0]["problem"] else problems[0]["problem"],
                          "value": value, "problems": problems[:5], "result": observe.plain(got[1])})
    return fails


replay_predicate = predicate


ATHERIS_RUNS = 8000  # per campaign; shards 0-1 of the thorough tier run one each


def atheris_strategy():
    return st.one_of(cases(), cases(), cases(), cases(), cases(), number_position_cases())


def run_shard(ctx, stats):
    failure = runner.hyp_run(ctx, stats, atheris_strategy(), predicate, BUDGET[ctx.tier])
    if failure or ctx.quick or ctx.shard >= 2:
        return failure
    return runner.atheris_campaign(ctx, stats, sys.modules[__name__], ATHERIS_RUNS)


def _names_for(case):
    if case["mode"] == "parsed":
        return cc.renamed_pynames_schema(case["schema"])
    return cc.renamed_pynames_recipe(case["recipe"]) | cc.renamed_pynames_schema(R.to_schema(case["recipe"]))


@findings.classifier(PID, "pyname-key-collision")
def _pyname_collision(case, failure):
    """An input key equal to the Python name of a renamed property shares its slot in the result."""
    return failure.get("sub") == "readback" and cc.has_key_in(failure.get("value"), _names_for(case))


PROBES = {
    "pyname-key-collision": [
        {"mode": "dsl", "values": [{"class": "a", "class_": "b"}],
         "recipe": {"id": 1, "kind": "Object", "kw": {}, "name": "Foo", "props": [
             {"element": {"id": 2, "kind": "String", "kw": {}}, "name": "class_", "required": False, "source": "class"}]}},
        {"mode": "parsed", "values": [{"class": 1, "class_": 2}],
         "schema": {"properties": {"class": {}}}},
    ]
}
