"""C11 - class declaration order is a complete topological order; cycles are refused."""
import sys

from hypothesis import strategies as st

from vlib import observe, runner
from vlib.jsonvals import canon

from statham.schema.elements import (
    AllOf, AnyOf, Array, Element, Not, Nothing, Object, OneOf, String,
)
from statham.schema.elements.meta import ObjectClassDict, ObjectMeta
from statham.schema.exceptions import SchemaParseError
from statham.schema.property import Property
from statham.serializers.orderer import orderer

PID = "C11"
RULE = (
    "case = dependency graph on 1-7 uniquely named classes (random DAG edges i->j, j<i, plus "
    "optional late edges closing self-, mutual and long cycles through the documented "
    "`Cls.properties[...] = Property(...)` / attribute assignment; a class may subclass an earlier one and then "
    "inherits its properties and un-overridden keywords, i.e. its dependencies); every edge is realised by placing "
    "the target class in a slot of the source class (property, additionalProperties, "
    "patternProperties, propertyNames, dependencies) behind 0-2 wrappers drawn from items, tuple "
    "items, additionalItems, contains, properties, patternProperties, additionalProperties, "
    "propertyNames, dependencies, anyOf/oneOf/allOf, not; input to orderer = non-empty list of roots "
    "(classes or wrapper elements) in random order with duplicates; oracle = own DFS over the generated "
    "graph: no reachable cycle => output duplicate-free, == reachable set, every edge target precedes "
    "its source; reachable cycle => SchemaParseError; a line-count step budget (3M statham lines) "
    "detects non-termination; non-trivial = >=3 classes and >=1 edge behind >=1 wrapper; distinct = "
    "canon(case)"
)
RULE += (
    ' Round 9: the parser route runs twice, over the document as written and over the document with every typed object schema written with a one-element type list (the parser then meets already parsed values).'
)
RULE += (
    ' Round 10: wrappers anyOf-true, anyOf-true-first, oneOf-false, allOf-single, not-not (a class next to a trivial composition member).'
)
ASSUMPTIONS = [
    "class names are unique (orderer's documented precondition)",
    "termination detector is a deterministic line-count budget, not a proof",
]
BUDGET = {"quick": 1000, "thorough": 9000}
SLOTS = ["property", "property", "additionalProperties", "patternProperties", "propertyNames", "dependencies"]
WRAPPERS = ["items", "tuple", "additionalItems", "contains", "properties", "patternProperties",
            "additionalProperties", "propertyNames", "dependencies", "anyOf", "oneOf", "allOf", "not",
            # the same keyword positions reached another way: on an untyped element, or next to a sibling keyword that
            # makes them irrelevant for VALIDATION (a class standing there is still part of the module)
            "additionalItems-single", "element-additionalItems", "element-items", "element-contains", "element-tuple",
            # next to a trivial member (true / {} / false): the composition is then equivalent to something simpler,
            # but the class standing in it is still part of the module
            "anyOf-true", "anyOf-true-first", "oneOf-false", "allOf-single", "not-not"]
STEP_BUDGET = 3_000_000


def wrap(kind, inner):
    if kind == "items":
        return Array(inner)
    if kind == "tuple":
        return Array([String(), inner])
    if kind == "additionalItems":
        return Array([String()], additionalItems=inner)
    if kind == "contains":
        return Array(Element(), contains=inner)
    if kind == "additionalItems-single":
        return Array(String(), additionalItems=inner)
    if kind == "element-additionalItems":
        return Element(additionalItems=inner)
    if kind == "element-items":
        return Element(items=inner)
    if kind == "element-contains":
        return Element(contains=inner)
    if kind == "element-tuple":
        return Element(items=[inner, String()], additionalItems=False)
    if kind == "properties":
        return Element(properties={"w": Property(inner)})
    if kind == "patternProperties":
        return Element(patternProperties={"^a": inner})
    if kind == "additionalProperties":
        return Element(additionalProperties=inner)
    if kind == "propertyNames":
        return Element(propertyNames=inner)
    if kind == "dependencies":
        return Element(dependencies={"n": ["a", "b"], "a": inner, "z": []})
    if kind == "anyOf":
        return AnyOf(String(), inner)
    if kind == "anyOf-true":
        return AnyOf(inner, Element())
    if kind == "anyOf-true-first":
        return AnyOf(Element(), inner, String())
    if kind == "oneOf-false":
        return OneOf(Nothing(), inner)
    if kind == "allOf-single":
        return AllOf(inner)
    if kind == "not-not":
        return Not(Not(inner))
    if kind == "oneOf":
        return OneOf(inner, String())
    if kind == "allOf":
        return AllOf(Element(), inner)
    if kind == "not":
        return Not(inner)
    raise ValueError(kind)


@st.composite
def cases(draw):
    n = draw(st.integers(1, 7))
    edges = []
    for i in range(n):
        for j in range(i):
            if draw(st.integers(0, 2)) == 0:
                edges.append({"from": i, "to": j, "late": False, "slot": draw(st.sampled_from(SLOTS)),
                              "wrappers": draw(st.lists(st.sampled_from(WRAPPERS), max_size=2))})
    if draw(st.integers(0, 2)) == 0:
        for _ in range(draw(st.integers(1, 2))):
            i = draw(st.integers(0, n - 1))
            j = draw(st.integers(i, n - 1))
            edges.append({"from": i, "to": j, "late": True,
                          "slot": draw(st.sampled_from(["property", "additionalProperties"])),
                          "wrappers": draw(st.lists(st.sampled_from(WRAPPERS), max_size=2))})
    # some properties are named like the keyword attributes the traversal looks up
    special = ["properties", "additionalProperties", "patternProperties", "propertyNames", "dependencies",
               "items", "elements", "element", "contains", "additionalItems", "default", "required"]
    used = {}
    for e in edges:
        if draw(st.integers(0, 3)) == 0:
            name = draw(st.sampled_from(special))
            if name not in used.setdefault(e["from"], set()):
                used[e["from"]].add(name)
                e["pname"] = name
    bases = {}
    for i in range(1, n):
        if draw(st.integers(0, 3)) == 0:
            bases[str(i)] = draw(st.integers(0, i - 1))
    roots = draw(st.lists(
        st.fixed_dictionaries({"cls": st.integers(0, n - 1),
                               "wrappers": st.lists(st.sampled_from(WRAPPERS), max_size=1)}),
        min_size=1, max_size=4))
    # the parser de-duplicates titles by assigning `cls.__name__` afterwards: `__qualname__` (and `__module__`)
    # are then the same for several classes
    return {"n": n, "edges": edges, "roots": roots, "bases": bases, "renamed_after_creation": draw(st.integers(0, 2)) == 0,
            "parsed_route": draw(st.sampled_from([None, None, "plain", "type-lists", "type-lists"]))}


def build(case):
    classes = []
    for i in range(case["n"]):
        props, kwargs, pattern, deps = {}, {}, {}, {}
        for k, e in enumerate(x for x in case["edges"] if x["from"] == i and not x["late"]):
            el = classes[e["to"]]
            for w in reversed(e["wrappers"]):
                el = wrap(w, el)
            slot = e["slot"]
            if slot == "property":
                props[e.get("pname") or f"p{i}_{k}"] = Property(el)
            elif slot == "additionalProperties" and "additionalProperties" not in kwargs:
                kwargs["additionalProperties"] = el
            elif slot == "propertyNames" and "propertyNames" not in kwargs:
                kwargs["propertyNames"] = el
            elif slot == "patternProperties":
                pattern[f"^k{k}"] = el
            elif slot == "dependencies":
                deps[f"k{k}"] = el
            else:
                props[e.get("pname") or f"p{i}_{k}"] = Property(el)
        if pattern:
            kwargs["patternProperties"] = pattern
        if deps:
            # property-name lists next to schema dependencies
            kwargs["dependencies"] = {"lst": ["x"], **deps, "lst2": []}
        base = case.get("bases", {}).get(str(i))
        if base is None:
            classes.append(Object.inline("C" if case.get("renamed_after_creation") else f"C{i}", properties=props,
                                         **kwargs))
        else:
            # class C<i>(C<base>): inherits the base's properties (cloned) and un-overridden keywords
            classdict = ObjectClassDict()
            for name, prop in props.items():
                classdict[name] = prop
            classes.append(ObjectMeta("C" if case.get("renamed_after_creation") else f"C{i}", (classes[base],),
                                      classdict, **kwargs))
        if case.get("renamed_after_creation"):
            classes[-1].__name__ = f"C{i}"
    for k, e in enumerate(x for x in case["edges"] if x["late"]):
        el = classes[e["to"]]
        for w in reversed(e["wrappers"]):
            el = wrap(w, el)
        src = classes[e["from"]]
        if e["slot"] == "property":
            src.properties[f"late{k}"] = Property(el)
        else:
            src.additionalProperties = el
    return classes


def effective_edges(case):
    """Edges that exist after construction: own + inherited (properties always, keyword slots unless the
    subclass sets that keyword itself); late edges only affect the class they are applied to."""
    own = _own_edges(case)
    bases = case.get("bases", {})
    # property edges are keyed by the property NAME: a later property of the same name replaces an earlier one, and a
    # subclass's property replaces the inherited one of that name
    names = {}
    for i in range(case["n"]):
        for k, e in enumerate(x for x in case["edges"] if x["from"] == i and not x["late"]):
            names[id(e)] = e.get("pname") or f"p{i}_{k}"
    own_names = [names[id(e)] for e in case["edges"] if not e["late"]]
    static = {}  # class -> [(to, slot)] at class-creation time (late edges excluded)
    props_of = {}
    for i in range(case["n"]):
        mine_all = [(j, slot, nm) for (f, j, slot, late), nm in zip([o for o in own if not o[3]], own_names) if f == i]
        base = bases.get(str(i))
        props = dict(props_of[base]) if base is not None else {}
        for j, slot, nm in mine_all:
            if slot == "property":
                props[nm] = j
        props_of[i] = props
        mine = [(j, slot) for j, slot, _ in mine_all if slot != "property"]
        if base is not None:
            my_slots = {slot for _, slot in mine}
            mine += [(j, slot) for j, slot in static[base] if slot != "property" and slot not in my_slots]
        mine += [(j, "property") for j in props.values()]
        static[i] = mine
    out = []
    for i in range(case["n"]):
        late = [(j, slot) for (f, j, slot, is_late) in own if f == i and is_late]
        late_ap = [j for j, slot in late if slot == "additionalProperties"]
        edges_i = list(static[i])
        if late_ap:
            edges_i = [(j, slot) for j, slot in edges_i if slot != "additionalProperties"]
            edges_i.append((late_ap[-1], "additionalProperties"))
        edges_i += [(j, slot) for j, slot in late if slot == "property"]
        out += [(i, j) for j, _ in edges_i]
    return out


def _own_edges(case):
    """(from, to, effective slot, late) for the edges a class declares itself."""
    out = []
    taken = {}
    for e in case["edges"]:
        if e["late"]:
            continue
        i = e["from"]
        slot = e["slot"]
        if slot in ("additionalProperties", "propertyNames"):
            if (i, slot) in taken:
                slot = "property"
            else:
                taken[(i, slot)] = True
        out.append((i, e["to"], slot, False))
    for e in case["edges"]:
        if e["late"]:
            out.append((e["from"], e["to"], e["slot"], True))
    return out


def reachable(start, adj):
    seen, stack = set(), list(start)
    while stack:
        x = stack.pop()
        if x in seen:
            continue
        seen.add(x)
        stack.extend(adj.get(x, ()))
    return seen


def has_cycle(nodes, adj):
    color = {}

    def visit(x):
        color[x] = 1
        for y in adj.get(x, ()):
            if y not in nodes:
                continue
            if color.get(y) == 1 or (color.get(y) is None and visit(y)):
                return True
        color[x] = 2
        return False

    return any(color.get(x) is None and visit(x) for x in nodes)


class StepBudget(Exception):
    pass


def run_budgeted(fn):
    count = [0]

    def tracer(frame, event, arg):
        if "/statham/" not in frame.f_code.co_filename:
            return None

        def local(frame, event, arg):
            if event == "line":
                count[0] += 1
                if count[0] > STEP_BUDGET:
                    raise StepBudget()
            return local

        return local

    old = sys.gettrace()
    sys.settrace(tracer)
    try:
        return fn(), count[0]
    finally:
        sys.settrace(old)


def observe_frame(exc):
    from vlib import observe

    return observe.statham_frame(exc)


def predicate(case, stats):
    classes = build(case)
    edges = effective_edges(case)
    adj = {}
    for i, j in edges:
        adj.setdefault(i, set()).add(j)
    root_ids = [r["cls"] for r in case["roots"]]
    roots = []
    for r in case["roots"]:
        el = classes[r["cls"]]
        for w in r["wrappers"]:
            el = wrap(w, el)
        roots.append(el)
    reach = reachable(root_ids, adj)
    cyclic = has_cycle(reach, adj)
    fails = []
    yielded = []

    def consume():
        # one item at a time, as a lazy consumer sees it: what was handed out before an error counts
        for item in orderer(*roots):
            yielded.append(item)
        return list(yielded)

    try:
        (out, steps) = run_budgeted(consume)
        outcome = "order"
    except StepBudget:
        outcome = "budget"
        out, steps = None, STEP_BUDGET
    except SchemaParseError:
        outcome = "refused"
        out, steps = None, 0
    except RecursionError:
        outcome = "recursion"
        out = None
    except Exception as exc:  # noqa: BLE001
        outcome = "crash:" + type(exc).__name__
        out = None
    if outcome == "budget":
        fails.append({"sub": "termination", "kind": "step-budget-exceeded"})
    elif outcome.startswith("crash") or outcome == "recursion":
        fails.append({"sub": "order", "kind": "orderer-raised:" + outcome})
    elif cyclic:
        if outcome != "refused":
            fails.append({"sub": "cycle", "kind": "cyclic-graph-ordered", "got": [c.__name__ for c in out or []]})
        elif yielded:
            fails.append({"sub": "cycle", "kind": "partial-order-yielded-before-the-error",
                          "got": [getattr(c, "__name__", repr(c)) for c in yielded]})
    elif outcome == "refused":
        fails.append({"sub": "order", "kind": "acyclic-graph-refused"})
    else:
        names = [c.__name__ for c in out]
        want = {f"C{i}" for i in reach}
        if len(names) != len(set(names)):
            fails.append({"sub": "order", "kind": "class-yielded-twice", "got": names})
        if set(names) != want:
            fails.append({"sub": "order", "kind": "incomplete-or-extra-classes", "got": names, "want": sorted(want)})
        pos = {n: k for k, n in enumerate(names)}
        for i, j in edges:
            if f"C{i}" in pos and f"C{j}" in pos and pos[f"C{j}"] > pos[f"C{i}"]:
                fails.append({"sub": "order", "kind": "dependency-after-dependent", "edge": [i, j], "got": names})
                break
        if any(c is not classes[int(c.__name__[1:])] for c in out if isinstance(c, ObjectMeta)):
            fails.append({"sub": "order", "kind": "foreign-class-object-yielded"})
    if not fails and not cyclic and outcome == "order" and not case.get("bases") and case.get("parsed_route"):
        # the same graph reached the other way: written out as a document (some objects spelled "type": ["object"],
        # which sends them through the parser a second time), loaded through the documented pipeline, ordered again
        import json as _json
        from vlib import docs as _docs
        from statham.schema.parser import parse as _parse
        from statham.serializers import serialize_json as _serialize_json

        try:
            text = _json.dumps(_serialize_json(*roots))
            if case["parsed_route"] == "type-lists":
                text = text.replace('"type": "object"', '"type": ["object"]')
            elements = _parse(_docs.materialized({"a.json": _json.loads(text)}, "a.json"))
            names2 = [c.__name__ for c in orderer(*elements)]
        except RecursionError:
            names2 = None
        except Exception as exc:  # noqa: BLE001
            names2 = None
            if observe_frame(exc) != "?":
                fails.append({"sub": "parsed-route", "kind": "parsed-route-raised:" + type(exc).__name__,
                              "detail": str(exc)[:200]})
        if names2 is not None:
            want2 = {f"C{i}" for i in reach}
            if set(names2) != want2 or len(names2) != len(set(names2)):
                fails.append({"sub": "parsed-route", "kind": "parsed-route:incomplete-or-extra-classes", "got": names2,
                              "want": sorted(want2), "spelling": case["parsed_route"]})
            else:
                pos2 = {n: k for k, n in enumerate(names2)}
                for i, j in edges:
                    if f"C{i}" in pos2 and f"C{j}" in pos2 and pos2[f"C{j}"] > pos2[f"C{i}"]:
                        fails.append({"sub": "parsed-route", "kind": "parsed-route:dependency-after-dependent",
                                      "edge": [i, j], "got": names2})
                        break
    wrapped = [e for e in case["edges"] if e["wrappers"]]
    cls = ["n:%d" % case["n"], "outcome:" + outcome.split(":")[0], "cyclic" if cyclic else "acyclic"]
    if case.get("bases"):
        cls.append("inheritance")
    for e in case["edges"]:
        cls.append("slot:" + e["slot"])
        for w in e["wrappers"]:
            cls.append("wrap:" + w)
    stats.case(canon(case), case["n"] >= 3 and bool(wrapped), cls, sample=case)
    return fails


replay_predicate = predicate


def run_shard(ctx, stats):
    return runner.hyp_run(ctx, stats, cases(), predicate, BUDGET[ctx.tier])
