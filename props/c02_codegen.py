"""C02 - generated Python models accept exactly what the source schema accepts."""
import copy

from hypothesis import strategies as st

from vlib import docs, observe, ref6, runner
from vlib import jsonvals as jv
from vlib.jsonvals import canon
from vlib.values_for import values_for, without_one_member
from props.c07_defaults_descriptions import exec_module

from statham.schema.elements.meta import ObjectMeta
from statham.schema.exceptions import SchemaParseError
from statham.schema.parser import parse
from statham.serializers.orderer import orderer

PID = "C02"
RULE = (
    "case = non-recursive document set (1-3 files; root + 0-5 definition targets; $ref only to "
    "earlier targets: local pointer, cross-file pointer, whole file, the same target from several "
    "places; nested inline objects; titles absent (auto-titled from the pointer, incl. property names "
    "'items', '0', 'anyOf'), plain, repeated on equal and on different schemas, needing formatting; "
    "descriptions with quotes/backslashes/newlines/non-ASCII/empty; property names needing "
    "translation) x 5-8 values aimed at the inlined root schema; checks: main(uri) returns text that "
    "compiles without warning and executes in an empty namespace; the set of generated classes == "
    "classes of parse(materialize(doc)); each generated class == parsed class (both directions) and "
    "gives the same verdict and read-back result for every value; generated root verdict == ref6 on "
    "the source documents; non-trivial = >=2 classes and (a $ref or a repeated title); distinct = "
    "canon(files)"
)
ASSUMPTIONS = [
    "documents are served to json_ref_dict through its public loader registry; no $ref inside literals, no siblings next to $ref, no $id references (dependency limits)",
    "titles come from a pool whose class names do not clash with names the module imports (title hazards are C12's subject)",
    "ref6 (own $ref resolver) judges the source documents",
]
BUDGET = {"quick": 240, "thorough": 2600}

observe.register_formats()
CFG = docs.DCfg()


@st.composite
def cases(draw):
    doc = draw(docs.documents(CFG))
    try:
        inlined = docs.inline(doc["files"], doc["root"])
    except (RecursionError, KeyError, IndexError, ValueError):
        inlined = {}
    values = draw(values_for(inlined if isinstance(inlined, dict) else {}, 5, 8))
    values += draw(st.lists(jv.json_values(max_leaves=4), min_size=1, max_size=2))
    # every object of the document, reached through whichever reference, must still insist on its required members
    values += [draw(without_one_member(v)) for v in values[:4] if isinstance(v, (dict, list)) and v]
    return {"files": doc["files"], "root": doc["root"], "values": values}


def predicate(case, stats):
    files, root = case["files"], case["root"]
    fails = []
    kinds = docs.ref_kinds(files)
    classes = ["ref:" + k for k in sorted(kinds)] + ["files:%d" % len(files)]
    # direct parse
    try:
        schema = docs.materialized(copy.deepcopy(files), root)
        parsed = parse(schema)
        parsed_classes = list(orderer(*parsed))
    except SchemaParseError as exc:
        stats.case(canon(files), False, classes + ["parse-refused:" + type(exc).__name__])
        return [{"sub": "parse", "kind": "parse-refused:" + type(exc).__name__, "detail": str(exc)[:200]}]
    except RecursionError:
        stats.inconclusive["recursion"] += 1
        return []
    # generator
    try:
        text = docs.generate_module(copy.deepcopy(files), root)
    except Exception as exc:  # noqa: BLE001
        stats.case(canon(files), False, classes + ["generate-raised"])
        return [{"sub": "generate", "kind": "main-raised:" + type(exc).__name__,
                 "detail": f"{observe.statham_frame(exc)}: {str(exc)[:200]}"}]
    ns, problem = exec_module(text)
    if problem:
        problem.update({"sub": "exec", "text": text[-800:]})
        fails.append(problem)
    if ns is None:
        stats.case(canon(files), False, classes + ["exec-failed"])
        return fails
    generated = {k: v for k, v in ns.items() if isinstance(v, ObjectMeta) and k != "Object"}
    want = {c.__name__: c for c in parsed_classes}
    if len(want) != len(parsed_classes):
        fails.append({"sub": "classes", "kind": "parsed-class-names-not-distinct",
                      "detail": [c.__name__ for c in parsed_classes]})
    if set(generated) != set(want):
        fails.append({"sub": "classes", "kind": "class-set-differs",
                      "detail": {"generated": sorted(generated), "parsed": sorted(want)}})
    titles = []
    docs_walk_titles(files, titles)
    repeated = len(titles) != len(set(titles))
    if repeated:
        classes.append("repeated-title")
    for name in sorted(set(generated) & set(want)):
        g, p = generated[name], want[name]
        try:
            same = (g == p) and (p == g)
        except Exception as exc:  # noqa: BLE001
            same = False
        if not same:
            fails.append({"sub": "classes", "kind": "generated-class-differs", "class": name,
                          "text": g.python()[:500], "parsed": p.python()[:500]})
        for value in case["values"]:
            a, b = observe.verdict(g, value), observe.verdict(p, value)
            if a[0] != b[0]:
                fails.append({"sub": "verdict", "kind": f"generated-{a[0]}-parsed-{b[0]}", "class": name, "value": value})
                break
            if a[0] == "ok" and not observe.plain_eq(observe.plain(a[1]), observe.plain(b[1])):
                fails.append({"sub": "verdict", "kind": "generated-result-differs", "class": name, "value": value})
                break
    # the generated root class against the source documents (ref6, own resolver)
    root_el = parsed[0]
    n_ok = n_rej = 0
    if isinstance(root_el, ObjectMeta) and root_el.__name__ in generated:
        g = generated[root_el.__name__]
        opts = ref6.Opts(int_is_int=True, formats={}, waiver=True, store=files)
        for value in case["values"]:
            got = observe.verdict(g, value)
            try:
                expected = ref6.validate(files[root], copy.deepcopy(value), opts, base=root)
            except RecursionError:
                continue
            n_ok += got[0] == "ok"
            n_rej += got[0] == "reject"
            if got[0] not in ("ok", "reject"):
                fails.append({"sub": "source", "kind": "crash:" + str(got[1] if len(got) > 1 else got[0]), "value": value})
            elif expected is True and got[0] != "ok":
                fails.append({"sub": "source", "kind": "generated-root-rejects-valid", "value": value})
            elif expected is False and got[0] != "reject":
                fails.append({"sub": "source", "kind": "generated-root-accepts-invalid", "value": value})
    classes.append("classes:%d" % min(len(want), 6))
    if any("description" in t for t in [canon(files)]):
        classes.append("has-description")
    stats.case(canon(files), len(want) >= 2 and (bool(kinds) or repeated), classes,
               n=max(1, len(case["values"])),
               sample={"files": files, "module_tail": text[-400:]})
    return fails


def docs_walk_titles(node, acc):
    if isinstance(node, dict):
        if node.get("type") == "object" and isinstance(node.get("title"), str):
            acc.append(node["title"])
        for v in node.values():
            docs_walk_titles(v, acc)
    elif isinstance(node, list):
        for v in node:
            docs_walk_titles(v, acc)


replay_predicate = predicate


def run_shard(ctx, stats):
    return runner.hyp_run(ctx, stats, cases(), predicate, BUDGET[ctx.tier])
