"""C06 - serialize-then-parse is the identity on statham's normal form."""
import copy
import sys
import json

from hypothesis import strategies as st

from vlib.values_for import values_for
from vlib import docs, findings, observe, runner
from vlib import schemas as sg
from vlib.jsonvals import canon
from props.c07_defaults_descriptions import exec_module

from statham.schema.elements.meta import ObjectMeta
from statham.schema.exceptions import SchemaParseError
from statham.schema.parser import parse
from statham.serializers import serialize_json
from statham.serializers.orderer import orderer

PID = "C06"
RULE = (
    "case = supported schema from the Draft-6 grammar (all keyword groups, type lists, composition "
    "with siblings, object classes with repeated/formatted titles, renamed property names, falsy "
    "defaults); J1 = serialize_json(parse(S)); J1 goes through JSON text and the documented pipeline "
    "materialize(RefDict.from_uri(...), context_labeller=title_labeller()); J2 = "
    "serialize_json(*parse(J1)); check canon(J1) == canon(J2) (type-faithful, key order ignored, "
    "`required` as a set) and a third trip J3 == J2; and exec(serialize_python(parse(S))) yields per "
    "class name a class == the parsed one (both directions); non-trivial = J1 has >=3 keywords or a "
    "definitions section; distinct = canon(S)"
)
ASSUMPTIONS = [
    "only what the statement demands: J1 == J2 (and J3), not E1 == E2",
    "json_ref_dict materialize is trusted; J1 is served from memory after a json.dumps/json.loads round trip",
]
BUDGET = {"quick": 450, "thorough": 4500}

observe.register_formats()


def cfg():
    return sg.Cfg(depth=3, descriptions=True,
                  titles=["Foo", "Bar", "my title", "a1b", "object", "string", "Foo_1", "none", "日本"]
                  if not findings.is_open(PID, "dedupe-suffix-reformatted")
                  else None,
                  unique_titles=findings.is_open(PID, "dedupe-suffix-reformatted"))


def norm(doc):
    """Canonical comparison form: `required` as a sorted set."""
    if isinstance(doc, list):
        return [norm(x) for x in doc]
    if isinstance(doc, dict):
        out = {}
        for k, v in doc.items():
            if k == "required" and isinstance(v, list) and all(isinstance(x, str) for x in v):
                out[k] = sorted(set(v))
            else:
                out[k] = norm(v)
        return out
    return doc


def reparse(doc):
    """Parse a serialised document through the documented pipeline. -> list of elements."""
    doc = json.loads(json.dumps(doc))
    schema = docs.materialized({"a.json": doc}, "a.json")
    return parse(schema)


def keyword_count(doc):
    n = [0]
    sg.walk(doc, lambda s, p: n.__setitem__(0, n[0] + (len(s) if isinstance(s, dict) else 0)))
    return n[0]


def has_empty_key(node):
    if isinstance(node, dict):
        return "" in node or any(has_empty_key(v) for v in node.values())
    if isinstance(node, list):
        return any(has_empty_key(v) for v in node)
    return False


def first_parse(case):
    """-> list of elements (root first), or a safe_parse-style error tuple."""
    if case.get("definitions"):
        doc = dict(copy.deepcopy(case["schema"]))
        doc["definitions"] = copy.deepcopy(case["definitions"])
        try:
            return ("ok", parse(docs.materialized({"a.json": json.loads(json.dumps(doc))}, "a.json")))
        except SchemaParseError as exc:
            return ("parse-error", type(exc).__name__, str(exc)[:200])
        except RecursionError:
            return ("dependency", "RecursionError", "")
        except Exception as exc:  # noqa: BLE001
            if observe.statham_frame(exc) == "?":
                return ("dependency", type(exc).__name__, str(exc)[:200])
            return ("crash", type(exc).__name__, f"{observe.statham_frame(exc)}: {str(exc)[:200]}")
    parsed = observe.safe_parse(case["schema"])
    return ("ok", [parsed[1]]) if parsed[0] == "ok" else parsed


def dangling_refs(doc):
    from props.c03_json_serialisation import refs_of
    from vlib import ref6

    bad = []
    for ref in refs_of(doc):
        try:
            ref6.resolve_ref(ref, "", ref6.Opts(store={"": doc}))
        except (KeyError, IndexError, ValueError, TypeError):
            bad.append(ref)
    return sorted(set(bad))


def predicate(case, stats):
    schema = case["schema"]
    if has_empty_key(schema) or has_empty_key(case.get("definitions")):
        # json_ref_dict cannot address the member "" (pointer segment ""): dependency limit, not statham
        stats.excluded["empty-string-key (json_ref_dict pointer limit)"] += 1
        return []
    parsed = first_parse(case)
    if parsed[0] == "dependency":
        stats.inconclusive["dependency-error:" + parsed[1]] += 1
        return []
    if parsed[0] != "ok":
        stats.case(canon(schema), False, ["parse:" + parsed[0]])
        return [{"sub": "parse", "kind": "parse-refused:" + parsed[1], "detail": list(parsed)}]
    elements1 = parsed[1]
    e1 = elements1[0]
    fails = []
    try:
        j1 = serialize_json(*elements1)
        json.dumps(j1)
    except Exception as exc:  # noqa: BLE001
        return [{"sub": "serialize", "kind": "serialize-raised:" + type(exc).__name__,
                 "detail": f"{observe.statham_frame(exc)}: {str(exc)[:160]}"}]
    docs_ = [j1]
    bad = dangling_refs(json.loads(json.dumps(j1)))
    if bad:
        return [{"sub": "roundtrip", "kind": "J1-cannot-be-parsed-again:dangling-ref", "detail": bad, "J1": j1}]
    reparsed = []
    try:
        for _ in range(2):
            elements = reparse(docs_[-1])
            reparsed.append(elements)
            docs_.append(serialize_json(*elements))
    except SchemaParseError as exc:
        fails.append({"sub": "reparse", "kind": "reparse-refused:" + type(exc).__name__,
                      "detail": str(exc)[:200], "document": docs_[-1]})
    except RecursionError:
        stats.inconclusive["recursion"] += 1
        return []
    except Exception as exc:  # noqa: BLE001
        if observe.statham_frame(exc) == "?":
            # raised inside json_ref_dict (e.g. the empty key "" in a literal): dependency limit
            stats.inconclusive["dependency-error:" + type(exc).__name__] += 1
            return []
        fails.append({"sub": "reparse", "kind": "reparse-raised:" + type(exc).__name__,
                      "detail": f"{observe.statham_frame(exc)}: {str(exc)[:200]}", "document": docs_[-1]})
    for i in range(1, len(docs_)):
        a, b = canon(norm(docs_[i - 1])), canon(norm(docs_[i]))
        if a != b:
            fails.append({"sub": "roundtrip", "kind": f"J{i}-differs-from-J{i + 1}", "before": docs_[i - 1],
                          "after": docs_[i]})
            break
    # the element obtained from J1 is the element J1 was made from (a keyword value that the serialiser drops
    # consistently is "lost" although J1 == J2)
    from statham.schema.elements import Nothing as _Nothing

    if reparsed and not fails and not isinstance(e1, _Nothing):
        # (a top-level `false` is written as {"not": {}} - the documented dictionary shape - and comes back as
        # Not(Element()): same meaning, another element)
        e2 = reparsed[0][0]
        try:
            same = (e2 == e1) and (e1 == e2)
        except Exception as exc:  # noqa: BLE001
            same = "raised " + type(exc).__name__
        if same is not True:
            # `==` also tells `additionalItems=Nothing()` from `additionalItems=False` (one JSON value, two
            # spellings inside the tree), so an inequality is only a lead: what counts is whether the two elements
            # treat values differently (a dropped `required` does, a respelled `false` does not)
            def spelled(el):
                text = repr(el)
                py = observe.ser_python(el)
                if py[0] == "ok":
                    text += "\n" + py[1]
                return text.replace("additionalItems=Nothing()", "additionalItems=False").replace(
                    "additionalProperties=Nothing()", "additionalProperties=False")

            probes = list(case.get("values") or []) + [{}, [], None, "", 0, {"a": None}, [None]]
            if spelled(e1) != spelled(e2):
                # more than the respelling: some keyword value did not survive
                fails.append({"sub": "roundtrip", "kind": "element-parsed-from-J1-differs-from-the-element-J1-was-made-from",
                              "detail": "declarations differ", "first": spelled(e1)[:400], "again": spelled(e2)[:400], "J1": j1})
                probes = []
            for value in probes:
                va, vb = observe.verdict(e1, value), observe.verdict(e2, value)
                if va[0] != vb[0] or (va[0] == "ok" and not observe.plain_eq(observe.plain(va[1]), observe.plain(vb[1]))):
                    fails.append({"sub": "roundtrip", "kind": "element-parsed-from-J1-differs-from-the-element-J1-was-made-from",
                                  "detail": [str(va[0]), str(vb[0])], "value": value, "first": repr(e1)[:300],
                                  "again": repr(e2)[:300], "J1": j1})
                    break
            else:
                stats.classes["unequal-after-round-trip-but-same-behaviour"] += 1
    # generated python
    py = observe.ser_python(*elements1)
    from statham.serializers.orderer import get_children

    classes = {c.__name__: c for root in elements1 for c in [root] + list(get_children(root))
               if isinstance(c, ObjectMeta)}
    if py[0] != "ok":
        fails.append({"sub": "python", "kind": "serialize-python-" + ":".join(map(str, py[:2])), "detail": list(map(str, py))})
    elif classes:
        ns, problem = exec_module(py[1])
        if problem:
            problem.update({"sub": "python", "text": py[1][-600:]})
            fails.append(problem)
        if ns is not None:
            for name, cls in classes.items():
                gen = ns.get(name)
                try:
                    same = isinstance(gen, ObjectMeta) and gen == cls and cls == gen
                except Exception:  # noqa: BLE001
                    same = False
                if not same:
                    fails.append({"sub": "python", "kind": "executed-class-differs", "class": name,
                                  "generated": gen.python()[:400] if isinstance(gen, ObjectMeta) else repr(gen),
                                  "parsed": cls.python()[:400]})
    cls = []
    if "definitions" in j1:
        cls.append("has-definitions")
    if len(docs_) == 3:
        cls.append("three-trips")
    stats.case(canon(schema), keyword_count(j1) >= 3 or "definitions" in j1, cls,
               sample={"schema": schema, "J1": j1})
    return fails


replay_predicate = predicate


@st.composite
def title_collision_cases(draw):
    """Several DIFFERENT object schemas whose titles collide with each other and with the names de-duplication hands
    out (T, T, T_1, T_1, T_2, T_1_1): the names the first parse settles on must survive every further round trip."""
    base = draw(st.sampled_from(["Foo", "my title", "Address", "object"]))
    fam = [base, base, base + "_1", base + "_1", base + "_2", base + "_1_1", base + "_2_1", base + " 1"]
    titles = draw(st.lists(st.sampled_from(fam), min_size=2, max_size=5))
    props = {}
    for i, t in enumerate(titles):
        obj = {"type": "object", "title": t, "properties": {"q%d" % i: {"type": draw(st.sampled_from(["string", "integer"]))}}}
        where = draw(st.sampled_from(["prop", "prop", "items", "anyOf"]))
        props["p%d" % i] = {"prop": obj, "items": {"type": "array", "items": obj},
                           "anyOf": {"anyOf": [obj, {"type": "null"}]}}[where]
    return {"schema": {"type": "object", "title": draw(st.sampled_from(["Root", base])), "properties": props}}


@st.composite
def cases(draw):
    if draw(st.integers(0, 6)) == 0:
        return draw(title_collision_cases())
    schema = draw(sg.schemas(cfg()))
    case = {"schema": schema, "values": draw(values_for(schema, 3, 5))}
    if isinstance(schema, dict) and draw(st.integers(0, 3)) == 0:
        # a document with definitions: independent schemas, a structural twin of the root under another
        # title, and a user of the definitions (parse() returns root + definitions)
        defs = {}
        if schema.get("type") == "object" and draw(st.booleans()):
            twin = copy.deepcopy({k: v for k, v in schema.items() if k != "definitions"})
            twin["title"] = draw(st.sampled_from(["Twin", "Other", "Foo", "Bar"]))
            defs["twin"] = twin
        for i in range(draw(st.integers(0, 2))):
            defs["d%d" % i] = draw(sg.schemas(cfg(), depth=2))
        if defs:
            keys = sorted(defs)
            defs["user"] = {"type": "object", "title": "User", "properties": {
                "p%d" % i: {"$ref": "#/definitions/" + k} for i, k in enumerate(keys)}}
            case["definitions"] = defs
    return case


ATHERIS_RUNS = 8000  # per campaign; shards 0-1 of the thorough tier run one each


def atheris_strategy():
    return cases()


def run_shard(ctx, stats):
    strat = cases()
    failure = runner.hyp_run(ctx, stats, strat, predicate, BUDGET[ctx.tier])
    if failure or ctx.quick or ctx.shard >= 2:
        return failure
    return runner.atheris_campaign(ctx, stats, sys.modules[__name__], ATHERIS_RUNS)
