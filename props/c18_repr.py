"""C18 - an element's repr is the expression that rebuilds it."""
import ast
import copy

from hypothesis import strategies as st

from vlib import observe, recipes as R, runner
from vlib.jsonvals import canon

from statham.schema import elements as E
from statham.schema.property import Property, _Property

PID = "C18"
RULE = (
    "case = element-tree recipe over every public constructor's keyword set (each keyword present "
    "or absent; values non-default, equal to the default, falsy, nested literals, nested elements, "
    "lists/dicts of elements), with bound and unbound property wrappers (with/without source); "
    "for EVERY node and property of the built tree: eval(repr(x), public namespace) == x in both "
    "directions, and the AST of the repr has exactly the keywords whose value differs from the "
    "constructor default, positional arguments only for Array.items / composition members / "
    "Not.element; non-trivial = node with >=2 keywords or a nested element; distinct = canon(node recipe)"
)
ASSUMPTIONS = [
    "namespace = statham.schema.elements public names + Property + the tree's object classes by name",
    "bound properties are compared after binding the rebuilt wrapper under the same attribute name",
]
BUDGET = {"quick": 500, "thorough": 5000}

NS = {name: getattr(E, name) for name in
      ["AllOf", "AnyOf", "Array", "Boolean", "Element", "Integer", "Not", "Nothing", "Null",
       "Number", "Object", "OneOf", "String"]}
NS["Property"] = Property
CFG = R.RCfg(depth=3, equal_to_default_kw=True, extreme_literals=True, unicode_class_names=True)


def expected_keywords(node):
    kind = node["kind"]
    exp = set()
    for k, v in node.get("kw", {}).items():
        if k == "uniqueItems" and v is False:
            continue
        exp.add(k)
    for k, v in node.get("sub", {}).items():
        if k == "items" and kind == "Array":
            continue
        if k in ("additionalItems", "additionalProperties") and v is True:
            continue
        exp.add(k)
    if kind == "Element" and node.get("props") is not None:
        exp.add("properties")
    return exp


def expected_positional(node):
    kind = node["kind"]
    if kind == "Array":
        return 1
    if kind in ("AnyOf", "OneOf", "AllOf"):
        return len(node["elements"])
    if kind == "Not":
        return 1
    return 0


def check_object(obj, node, ns, bound_name=None):
    fails = []
    text = repr(obj)
    try:
        rebuilt = eval(text, dict(ns))  # noqa: S307 - the property under test
    except Exception as exc:  # noqa: BLE001
        return [{"sub": "eval", "kind": "repr-does-not-evaluate:" + type(exc).__name__, "repr": text[:500],
                 "detail": str(exc)[:200]}]
    if isinstance(obj, _Property) and bound_name:
        rebuilt.bind(name=bound_name)
    try:
        same = (rebuilt == obj) and (obj == rebuilt)
    except Exception as exc:  # noqa: BLE001
        same = False
    if not same:
        fails.append({"sub": "eval", "kind": "rebuilt-differs", "repr": text[:500], "rebuilt": repr(rebuilt)[:500]})
    if node is not None and node["kind"] != "Object":
        tree = ast.parse(text, mode="eval").body
        if not isinstance(tree, ast.Call) or not isinstance(tree.func, ast.Name) or tree.func.id != node["kind"]:
            fails.append({"sub": "ast", "kind": "repr-not-a-constructor-call", "repr": text[:300]})
        else:
            got = {k.arg for k in tree.keywords}
            exp = expected_keywords(node)
            if got != exp:
                fails.append({"sub": "ast", "kind": "keyword-set-differs", "repr": text[:500],
                              "detail": {"missing": sorted(exp - got), "unexpected": sorted(got - exp)}})
            if len(tree.args) != expected_positional(node):
                fails.append({"sub": "ast", "kind": "positional-arguments", "repr": text[:300]})
    return fails


def predicate(case, stats):
    recipe = case["recipe"]
    env = {}
    R._build(copy.deepcopy(recipe), env)
    idx = R.index(recipe)
    ns = dict(NS)
    for nid, node in idx.items():
        if node["kind"] == "Object":
            ns[node["name"]] = env[nid]
    fails = []
    if case.get("use_first"):
        # a sequence, not a single call: every node validates something before its repr is taken (whatever a
        # validation leaves on the object must not become part of what `==` compares)
        from vlib import observe

        for nid in sorted(idx):
            for value in ({}, [], "a", 1, None, {"a": 1}):
                observe.verdict(env[nid], value)
    for nid, node in sorted(idx.items()):
        obj = env[nid]
        f = check_object(obj, node, ns)
        n_kw = len(expected_keywords(node))
        nested = bool(node.get("sub") or node.get("props") or node.get("elements") or node.get("element"))
        stats.case(canon(node), n_kw >= 2 or nested, ["kind:" + node["kind"], "kw:%d" % min(n_kw, 5)],
                   sample={"recipe": node, "repr": repr(obj)[:400]})
        for x in f:
            x["node"] = nid
        fails.extend(f)
        # property wrappers: bound (as stored on the owner) and an unbound twin
        if node["kind"] in ("Element", "Object") and node.get("props"):
            for p in node["props"]:
                bound = obj.properties[p["name"]]
                f = check_object(bound, None, ns, bound_name=p["name"])
                unbound = Property(bound.element, required=p.get("required", False),
                                   **({"source": p["source"]} if p.get("source") is not None else {}))
                f += check_object(unbound, None, ns)
                # keyword inventory of the wrapper itself
                text = repr(unbound)
                try:
                    call = ast.parse(text, mode="eval").body
                except SyntaxError:
                    call = None  # already reported by check_object as repr-does-not-evaluate
                got = {k.arg for k in call.keywords} if isinstance(call, ast.Call) else None
                exp = set()
                if p.get("required"):
                    exp.add("required")
                if p.get("source") is not None:
                    exp.add("source")
                if got != exp:
                    f.append({"sub": "ast", "kind": "property-keyword-set-differs", "repr": text[:300],
                              "detail": {"expected": sorted(exp), "got": sorted(got or [])}})
                stats.case(canon(["prop", p]), True, ["property" + (":renamed" if p.get("source") else "")])
                for x in f:
                    x["node"] = nid
                    x["property"] = p["name"]
                fails.extend(f)
    return fails


replay_predicate = predicate


def run_shard(ctx, stats):
    strat = st.tuples(R.recipes(CFG), st.booleans()).map(lambda t: {"recipe": t[0], "use_first": t[1]})
    return runner.hyp_run(ctx, stats, strat, predicate, BUDGET[ctx.tier])
