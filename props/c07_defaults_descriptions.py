"""C07 - defaults and object descriptions survive parsing and serialization."""
import copy
import warnings

from hypothesis import strategies as st

from vlib import observe, runner
from vlib import jsonvals as jv
from vlib.jsonvals import canon, json_identical

from statham.schema.constants import NotPassed
from statham.schema.elements.meta import ObjectMeta

PID = "C07"
RULE = (
    "case = default-carrying core shape (untyped; each single type; one- and multi-element type "
    "lists incl. object; anyOf/oneOf/allOf with 1-3 branches, not, two composition keywords, with or "
    "without sibling type; object class) x any JSON default (emphasis on false 0 0.0 '' [] {} null and "
    "on values invalid for the shape) placed at the root, under a plain/renamed property, or under a "
    "nested property, or in a definitions entry referenced from 2-3 properties (one dict shared by all "
    "references after materialize), x description strings over an alphabet with quotes, backslashes, newlines, CR, "
    "tabs, triple quotes, non-ASCII, leading/trailing spaces and quotes, and the empty string; "
    "checks: parsed element at that location carries the identical default (NotPassed where none "
    "declared); multiset of defaults in serialize_json == declared; executed serialize_python "
    "classes carry the same defaults; class description and generated class description == text "
    "char for char, module compiles without warning; non-trivial = falsy or invalid default, or "
    "description needing escaping; distinct = canon(schema)"
)
RULE += (
    ' Plain cases go through the documented loader a quarter of the time.'
)
RULE += (
    ' Round 9: sub-check `definitions`: two elements that differ only in a lookalike default (0/false, 1/true, nested), one of them also passed to serialize_json as a member of `definitions`; each property must show its own default in the document (inline or through the reference).'
)
ASSUMPTIONS = [
    "defaults are compared with type identity (true/1/1.0 are all different)",
    "a default and its composition parent are one node in statham's normal form when the composition has a single branch; the multiset comparison ignores location for that reason",
]
BUDGET = {"quick": 1000, "thorough": 9000}

TYPES = ["null", "boolean", "integer", "number", "string", "array"]
FALSY = [False, 0, 0.0, "", [], {}, None]
DESC_ALPHABET = ['"', "'", "\\", "\n", "\t", "\r", "a", "b", " ", "é", "日", "{", "}", "#", "n", "d", "x"]
descriptions = st.one_of(
    st.sampled_from(["", "plain text", 'He said "hi"', "back\\slash \\d \\n", 'ends with quote"',
                     '"""', "line one\nline two", "  padded  ", "tab\there", "日本語 é", '""', "\\",
                     'a"""b', "cr\rlf"]),
    st.text(alphabet=DESC_ALPHABET, min_size=0, max_size=8),
)
defaults = st.one_of(st.sampled_from(FALSY), st.sampled_from(FALSY), jv.json_values(max_leaves=4))


def branch():
    return st.one_of(
        st.sampled_from(TYPES).map(lambda t: {"type": t}),
        st.just({}),
        st.just(False),
        st.just(True),
        st.just({"minimum": 1}),
        st.just({"type": "object", "title": "Branch", "properties": {"q": {"type": "string"}}}),
    )


@st.composite
def core(draw):
    kind = draw(st.sampled_from(["untyped", "typed", "typelist1", "typelistN", "compose", "compose",
                                 "compose2", "object", "typelist1-object"]))
    s = {}
    if kind == "typed":
        s["type"] = draw(st.sampled_from(TYPES))
    elif kind == "typelist1":
        s["type"] = [draw(st.sampled_from(TYPES + ["object"]))]
    elif kind == "typelist1-object":
        kind = "typelist1"
        s["type"] = ["object"]
        s["properties"] = {"p": {"type": "integer"}}
    elif kind == "typelistN":
        s["type"] = draw(st.lists(st.sampled_from(TYPES + ["object"]), min_size=2, max_size=3, unique=True))
    elif kind in ("compose", "compose2"):
        kws = draw(st.lists(st.sampled_from(["anyOf", "oneOf", "allOf", "not"]),
                            min_size=1 if kind == "compose" else 2, max_size=1 if kind == "compose" else 2,
                            unique=True))
        for kw in kws:
            if kw == "not":
                s["not"] = draw(branch())
            else:
                bs = draw(st.lists(branch(), min_size=1, max_size=3))
                # at most one object branch (class names must stay unique)
                seen_obj = False
                out = []
                for b in bs:
                    if isinstance(b, dict) and b.get("type") == "object":
                        if seen_obj:
                            continue
                        seen_obj = True
                    out.append(copy.deepcopy(b))
                s[kw] = out
        if draw(st.integers(0, 2)) == 0:
            s["type"] = draw(st.sampled_from(TYPES))
    elif kind == "object":
        s = {"type": "object", "title": "Core", "properties": {"p": {"type": "integer"}}}
        if draw(st.booleans()):
            s["description"] = draw(descriptions)
    t = s.get("type")
    if (t == "object" or (isinstance(t, list) and "object" in t)) and "title" not in s:
        s["title"] = "Core"
    # branch objects and core may not both be named Branch/Core twice: ensured by construction
    has_default = draw(st.integers(0, 5)) > 0
    if has_default:
        s["default"] = draw(defaults)
    return kind, s


@st.composite
def cases(draw):
    kind, s = draw(core())
    where = draw(st.sampled_from(["root", "property", "property", "nested"]))
    name = draw(st.sampled_from(["a", "class", "a-b", "value", "1x"]))
    path = []
    schema = s
    if where in ("property", "nested"):
        props = {name: s}
        core_types = s.get("type") if isinstance(s, dict) else None
        if core_types in ("object", ["object"]) and draw(st.booleans()):
            # an equal object schema under the same title but WITHOUT the default, parsed first:
            # class de-duplication must not let the default leak onto it
            twin = {k: copy.deepcopy(v) for k, v in s.items() if k != "default"}
            twin["type"] = "object"
            if draw(st.booleans()):
                # ... or differing ONLY in the description: de-duplication must keep both texts
                twin = copy.deepcopy(s)
                twin["type"] = "object"
                twin["description"] = draw(descriptions) + " (twin)"
            props = {"0twin": twin, name: s}
        schema = {"type": "object", "title": "Inner", "properties": props}
        if draw(st.booleans()):
            schema["description"] = draw(descriptions)
        path = [name]
        if draw(st.integers(0, 3)) == 0:
            schema["required"] = [name]
    if where == "nested":
        outer_name = draw(st.sampled_from(["b", "not", "x"]))
        schema = {"type": "object", "title": "Outer", "properties": {outer_name: schema}}
        if draw(st.booleans()):
            schema["description"] = draw(descriptions)
        path = [outer_name, name]
    return {"kind": kind, "where": where, "schema": schema, "path": path,
            "pipeline": draw(st.sampled_from(observe.PIPELINES))}


@st.composite
def shared_cases(draw):
    """The default-carrying schema is a definitions entry referenced from several properties: after
    materialize() all references share ONE dict, which the parser visits (and rewrites) repeatedly."""
    kind, s = draw(core())
    if isinstance(s, dict) and "title" in s:
        s = {k: v for k, v in s.items() if k != "title"}  # auto-titled from the pointer
    names = draw(st.lists(st.sampled_from(["a", "b", "class", "x1", "zz"]), min_size=2, max_size=3, unique=True))
    root = {"type": "object", "title": "Root", "properties": {n: {"$ref": "#/definitions/shared"} for n in names},
            "definitions": {"shared": s}}
    return {"kind": kind, "where": "shared-ref", "document": root, "names": names, "core": s}


def shared_predicate(case, stats):
    from vlib import docs
    from statham.schema.parser import parse
    from statham.schema.exceptions import SchemaParseError

    core = case["core"]
    declared = core.get("default", NotPassed()) if isinstance(core, dict) else NotPassed()
    fails = []

    def has_empty_key(node):
        if isinstance(node, dict):
            return "" in node or any(has_empty_key(v) for v in node.values())
        return isinstance(node, list) and any(has_empty_key(v) for v in node)

    if has_empty_key(case["document"]):
        # json_ref_dict cannot address the member "" (pointer segment ""): dependency limit, not statham
        stats.excluded["empty-string-key (json_ref_dict pointer limit)"] += 1
        return []
    try:
        elements = parse(docs.materialized({"a.json": copy.deepcopy(case["document"])}, "a.json"))
    except SchemaParseError as exc:
        stats.case(canon(case["document"]), False, ["shared:parse-refused"])
        return [{"sub": "parse", "kind": "parse-refused:" + type(exc).__name__, "detail": str(exc)[:200]}]
    except RecursionError:
        stats.inconclusive["recursion"] += 1
        return []
    except Exception as exc:  # noqa: BLE001
        if observe.statham_frame(exc) == "?":
            stats.inconclusive["dependency-error:" + type(exc).__name__] += 1
            return []
        raise
    root = elements[0]
    for name in case["names"]:
        target = navigate(root, [name])
        if target is None:
            fails.append({"sub": "navigate", "kind": "property-not-found-by-json-name", "path": [name]})
            continue
        have = getattr(target, "default", NotPassed())
        if isinstance(declared, NotPassed):
            if not isinstance(have, NotPassed):
                fails.append({"sub": "parse", "kind": "default-invented", "path": [name], "got": repr(have)[:100]})
        elif isinstance(have, NotPassed):
            fails.append({"sub": "parse", "kind": "default-dropped-on-a-later-reference", "path": [name],
                          "declared": declared, "element": repr(target)[:200], "shape": case["kind"]})
        elif not json_identical(have, declared):
            fails.append({"sub": "parse", "kind": "default-altered-by-parser", "path": [name], "got": repr(have)[:100]})
    stats.case(canon(case["document"]), True, ["shape:" + case["kind"], "where:shared-ref",
                                               "refs:%d" % len(case["names"])], sample={"document": case["document"]})
    return fails


def declared_defaults(schema, acc=None):
    from vlib.schemas import walk

    acc = []
    walk(schema, lambda s, p: acc.append(s["default"]) if isinstance(s, dict) and "default" in s else None)
    return acc


def serialized_defaults(doc):
    acc = declared_defaults(doc)
    for d in (doc.get("definitions") or {}).values() if isinstance(doc, dict) else []:
        pass  # definitions are walked by schemas.walk already
    return acc


def navigate(element, path):
    for name in path:
        props = element.properties
        hit = [p for p in props.values() if p.source == name]
        if len(hit) != 1:
            return None
        element = hit[0].element
    return element


def class_descriptions(schema, acc=None):
    """title -> description for every object schema in the source."""
    from vlib.schemas import walk

    acc = {}

    def visit(s, p):
        if isinstance(s, dict) and (s.get("type") == "object" or (isinstance(s.get("type"), list) and "object" in s["type"])):
            acc[s["title"]] = s.get("description", None)

    walk(schema, visit)
    return acc


def exec_module(text):
    """compile + exec in a namespace holding nothing but builtins. -> (namespace | None, problem)."""
    with warnings.catch_warnings(record=True) as caught:
        warnings.simplefilter("always")
        try:
            code = compile(text, "<generated>", "exec")
        except SyntaxError as exc:
            return None, {"kind": "generated-module-syntax-error", "detail": str(exc)[:200]}
        except ValueError as exc:
            return None, {"kind": "generated-module-not-compilable", "detail": str(exc)[:200]}
    syntax_warnings = [str(w.message) for w in caught if issubclass(w.category, (SyntaxWarning, DeprecationWarning))]
    ns = {}
    try:
        with warnings.catch_warnings():
            warnings.simplefilter("ignore")
            exec(code, ns)  # noqa: S102 - executing generated code is the property under test
    except Exception as exc:  # noqa: BLE001
        return None, {"kind": "generated-module-raises:" + type(exc).__name__, "detail": str(exc)[:200]}
    if syntax_warnings:
        return ns, {"kind": "generated-module-compile-warning", "detail": syntax_warnings[:2]}
    return ns, None


@st.composite
def definitions_cases(draw):
    """Two elements that differ ONLY in a default which a sloppy comparison confuses (0 / false, 1 / true, nested), one of
    them also handed to serialize_json as a member of `definitions`: the other one must keep its own default in the
    document, whether it is written inline or as a reference."""
    base = draw(st.sampled_from([{"type": "integer"}, {"type": ["integer", "boolean"]}, {}, {"type": "array"},
                                 {"type": "object", "title": "Thing", "properties": {"p": {"type": "integer"}}}]))
    d1 = draw(st.one_of(st.sampled_from([0, 1, False, True, [0], {"a": 1}, [True, 0]]), defaults))
    alike = jv.lookalike(d1)
    d2 = draw(st.sampled_from(alike)) if alike else draw(defaults)
    return {"where": "definitions", "base": base, "default": d1, "other_default": d2,
            "first": draw(st.booleans())}


def definitions_predicate(case, stats):
    from statham.schema.elements import Element
    from statham.schema.property import Property
    from statham.serializers import serialize_json

    def variant(default, tag):
        s = dict(copy.deepcopy(case["base"]), default=copy.deepcopy(default))
        if "title" in s:
            s["title"] = s["title"] + tag  # one class name per class (two classes under one name are ambiguous input)
        return observe.safe_parse(s)

    mine, other, shared = variant(case["default"], "A"), variant(case["other_default"], "B"), variant(case["other_default"], "C")
    stats.case(canon(case), True, ["where:definitions"], sample=case)
    if mine[0] != "ok" or other[0] != "ok" or shared[0] != "ok":
        return []
    props = {"p": Property(mine[1]), "q": Property(other[1])}
    if not case.get("first"):
        props = dict(reversed(list(props.items())))
    tree = Element(properties=props)
    try:
        doc = serialize_json(tree, definitions={"flag_or_level": shared[1]})
    except Exception as exc:  # noqa: BLE001
        return [{"sub": "json", "kind": "serialize-json-raised:" + type(exc).__name__}]
    defs = doc.get("definitions", {})

    def resolved(node):
        seen = 0
        while isinstance(node, dict) and isinstance(node.get("$ref"), str) and seen < 5:
            node = defs.get(node["$ref"].split("/")[-1], {})
            seen += 1
        return node

    fails = []
    for name, want in (("p", case["default"]), ("q", case["other_default"])):
        node = resolved(doc.get("properties", {}).get(name))
        # (1 and 1.0 are one JSON value - elements differing only in that are equal, and either spelling may be written;
        # true and 1 are not)
        if not isinstance(node, dict) or "default" not in node or not jv.json_eq(node["default"], want):
            fails.append({"sub": "json", "kind": "default-taken-from-a-lookalike-definition", "property": name,
                          "declared": want, "got": node.get("default", "<absent>") if isinstance(node, dict) else repr(node)})
    return fails


@st.composite
def subclass_cases(draw):
    """Model classes written in the DSL: a subclass re-declaring `default` (and `description`) over its parent's -
    often with a value that a sloppy comparison takes for the parent's (true/1, 0/false, nested)."""
    base_default = draw(st.one_of(defaults, st.sampled_from([{"retries": 1, "tags": [0]}, 1, 0, [1], {"a": 0}])))
    alike = jv.lookalike(base_default)
    child_default = draw(st.sampled_from(alike)) if alike and draw(st.integers(0, 2)) > 0 else draw(defaults)
    return {"where": "dsl-subclass", "base_default": base_default, "child_default": child_default,
            "base_description": draw(st.one_of(st.none(), descriptions)),
            "child_description": draw(st.one_of(st.none(), descriptions)),
            "mixin": draw(st.sampled_from([None, None, "first", "last"]))}


def subclass_predicate(case, stats):
    from vlib import recipes as R
    from statham.serializers import serialize_json, serialize_python

    base = {"id": 1, "kind": "Object", "name": "Base", "kw": {"default": case["base_default"]}, "props": [
        {"name": "retries", "source": None, "required": False, "element": {"id": 2, "kind": "Element", "kw": {}}}]}
    child = {"id": 3, "kind": "Object", "name": "Child", "kw": {"default": case["child_default"]}, "base": base,
             "props": [{"name": "tags", "source": None, "required": False, "element": {"id": 4, "kind": "Element", "kw": {}}}]}
    for node, key in ((base, "base_description"), (child, "child_description")):
        if case.get(key) is not None:
            node["kw"]["description"] = case[key]
    if case.get("mixin"):
        child["mixin"] = case["mixin"]
    cls = R.build(child)
    want = case["child_default"]
    want_desc = case["child_description"] if case.get("child_description") is not None else case.get("base_description")
    fails = []
    stats.case(canon(case), True, ["where:dsl-subclass"] + (["lookalike-of-parent-default"]
               if any(json_identical(want, x) for x in jv.lookalike(case["base_default"])) else []), sample=case)
    if not json_identical(cls.default, want):
        return [{"sub": "dsl", "kind": "subclass-default-is-not-the-declared-one", "got": repr(cls.default)[:100]}]
    try:
        doc = serialize_json(cls)
    except Exception as exc:  # noqa: BLE001
        return [{"sub": "json", "kind": "serialize-json-raised:" + type(exc).__name__}]
    if "default" not in doc or not json_identical(doc["default"], want):
        fails.append({"sub": "json", "kind": "subclass-default-altered-in-json", "declared": want,
                      "got": doc.get("default", "<absent>")})
    try:
        text = serialize_python(cls)
    except Exception as exc:  # noqa: BLE001
        return fails + [{"sub": "python", "kind": "serialize-python-raised:" + type(exc).__name__}]
    ns, problem = exec_module(text)
    gen = ns.get("Child") if ns is not None else None
    if problem or gen is None:
        fails.append({"sub": "python", "kind": "subclass-module-does-not-execute:" + str((problem or {}).get("kind", "class-missing")),
                      "text": text[-400:]})
        return fails
    have = getattr(gen, "default", NotPassed())
    if isinstance(have, NotPassed) or not json_identical(have, want):
        fails.append({"sub": "python", "kind": "subclass-default-altered-in-generated-module", "declared": want,
                      "got": repr(have)[:100], "text": text[-400:]})
    if want_desc is not None:
        got_desc = getattr(gen, "description", None)
        if isinstance(got_desc, NotPassed) or got_desc != want_desc:
            fails.append({"sub": "python", "kind": "subclass-description-altered-in-generated-module",
                          "declared": want_desc, "got": repr(got_desc)[:100]})
    return fails


def predicate(case, stats):
    if case.get("where") == "dsl-subclass":
        return subclass_predicate(case, stats)
    if case.get("where") == "definitions":
        return definitions_predicate(case, stats)
    if case.get("where") == "shared-ref":
        return shared_predicate(case, stats)
    schema = case["schema"]
    fails = []
    parsed = observe.safe_parse(schema, case.get("pipeline"))
    if parsed[0] != "ok":
        stats.case(canon(schema), False, ["parse:" + parsed[0]])
        return [{"sub": "parse", "kind": "parse-refused:" + parsed[1], "detail": list(parsed)}]
    root = parsed[1]
    core_schema = schema
    for name in case["path"]:
        core_schema = core_schema["properties"][name]
    declared = core_schema.get("default", NotPassed()) if isinstance(core_schema, dict) else NotPassed()
    target = navigate(root, case["path"])
    if target is None:
        fails.append({"sub": "navigate", "kind": "property-not-found-by-json-name", "path": case["path"]})
    else:
        have = getattr(target, "default", NotPassed())
        if isinstance(declared, NotPassed):
            if not isinstance(have, NotPassed):
                fails.append({"sub": "parse", "kind": "default-invented", "got": repr(have)[:100], "element": repr(target)[:200]})
        elif isinstance(have, NotPassed):
            fails.append({"sub": "parse", "kind": "default-dropped-by-parser", "declared": declared,
                          "element": repr(target)[:200], "shape": case["kind"]})
        elif not json_identical(have, declared):
            fails.append({"sub": "parse", "kind": "default-altered-by-parser", "declared": declared,
                          "got": repr(have)[:100]})
        elif isinstance(declared, (list, dict)) and not isinstance(target, ObjectMeta):
            # a sequence: the default is USED (value omitted), the caller edits what came back, and the element must
            # still carry the default it was declared with - when the default is valid for the element (an invalid
            # one is handed back as-is, says C05)
            supplied = observe.verdict(target, copy.deepcopy(declared))
            if supplied[0] == "ok":
                try:
                    with warnings.catch_warnings():
                        warnings.simplefilter("ignore")
                        used = target(NotPassed())
                    if isinstance(used, list):
                        used.append("edited by the caller")
                    elif isinstance(used, dict):
                        used["edited by the caller"] = True
                except Exception:  # noqa: BLE001 - not this check's subject
                    used = None
                after = getattr(target, "default", NotPassed())
                if isinstance(after, NotPassed) or not json_identical(after, declared):
                    fails.append({"sub": "use", "kind": "default-changed-by-editing-the-value-it-produced",
                                  "declared": declared, "now": repr(after)[:100]})
                    target.default = copy.deepcopy(declared)
    # every sibling / enclosing position: defaults stay where they were declared (never moved or shared)
    def positions(sch, prefix):
        if isinstance(sch, dict) and isinstance(sch.get("properties"), dict) and (
                sch.get("type") == "object" or sch.get("type") == ["object"]):
            for pname, sub in sch["properties"].items():
                yield prefix + [pname], sub
                yield from positions(sub, prefix + [pname])

    for pth, sub in positions(schema, []):
        if pth == case["path"] or not isinstance(sub, dict):
            continue
        el = navigate(root, pth)
        if el is None:
            continue
        want = sub.get("default", NotPassed())
        have = getattr(el, "default", NotPassed())
        if isinstance(want, NotPassed) and not isinstance(have, NotPassed):
            fails.append({"sub": "parse", "kind": "default-leaked-to-another-element", "path": pth,
                          "got": repr(have)[:100]})
        elif not isinstance(want, NotPassed) and (isinstance(have, NotPassed) or not json_identical(have, want)):
            fails.append({"sub": "parse", "kind": "sibling-default-altered", "path": pth})
        if isinstance(el, ObjectMeta) and isinstance(sub.get("description"), str):
            if isinstance(el.description, NotPassed) or el.description != sub["description"]:
                fails.append({"sub": "description", "kind": "description-of-another-schema", "path": pth,
                              "declared": sub["description"], "got": repr(el.description)[:100]})
    # serialize_json: multiset of defaults
    want = sorted(canon(d) for d in declared_defaults(schema))
    js = observe.ser_json(root)
    if js[0] != "ok":
        fails.append({"sub": "json", "kind": "serialize-json-" + js[0], "detail": list(map(str, js))})
    else:
        got = sorted(canon(d) for d in serialized_defaults(js[1]))
        if got != want:
            fails.append({"sub": "json", "kind": "defaults-differ-in-json", "declared": want, "serialized": got,
                          "shape": case["kind"]})
    # descriptions on parsed classes
    descs = class_descriptions(schema)
    from vlib.readback import get_children

    classes = {c.__name__: c for c in [root] + list(get_children(root)) if isinstance(c, ObjectMeta)}
    has_twin = "0twin" in canon(schema)
    for title, text in descs.items():
        cls = classes.get(title)
        if cls is None or (has_twin and title == "Core"):
            continue
        have = cls.description
        if text is None:
            if not isinstance(have, NotPassed):
                fails.append({"sub": "description", "kind": "description-invented", "class": title})
        elif isinstance(have, NotPassed) or have != text:
            fails.append({"sub": "description", "kind": "description-altered-by-parser", "class": title,
                          "declared": text, "got": repr(have)[:100]})
    # serialize_python
    py = observe.ser_python(root)
    if py[0] != "ok":
        fails.append({"sub": "python", "kind": "serialize-python-" + py[0], "detail": list(map(str, py))})
    elif classes:
        ns, problem = exec_module(py[1])
        if problem:
            problem.update({"sub": "python", "text": py[1][-600:]})
            fails.append(problem)
        if ns is not None:
            for title, cls in classes.items():
                gen = ns.get(title)
                if not isinstance(gen, ObjectMeta):
                    fails.append({"sub": "python", "kind": "generated-class-missing", "class": title})
                    continue
                gd, pd = gen.default, cls.default
                if isinstance(gd, NotPassed) != isinstance(pd, NotPassed) or (
                        not isinstance(pd, NotPassed) and not json_identical(gd, pd)):
                    fails.append({"sub": "python", "kind": "class-default-differs-in-python", "class": title,
                                  "detail": [repr(gd)[:80], repr(pd)[:80]]})
                for pname, prop in cls.properties.items():
                    gprop = gen.properties.get(pname)
                    if gprop is None:
                        fails.append({"sub": "python", "kind": "generated-property-missing", "class": title, "property": pname})
                        continue
                    a = getattr(gprop.element, "default", NotPassed())
                    b = getattr(prop.element, "default", NotPassed())
                    if isinstance(a, NotPassed) != isinstance(b, NotPassed) or (
                            not isinstance(b, NotPassed) and not json_identical(a, b)):
                        fails.append({"sub": "python", "kind": "property-default-differs-in-python",
                                      "class": title, "property": pname, "detail": [repr(a)[:80], repr(b)[:80]]})
                text = None if (has_twin and title == "Core") else descs.get(title)
                if text is not None:
                    gdesc = gen.description
                    if isinstance(gdesc, NotPassed) or gdesc != text:
                        fails.append({"sub": "python", "kind": "docstring-differs", "class": title,
                                      "declared": text, "got": repr(gdesc)[:120]})
    hostile = any(t is not None and (t == "" or any(c in t for c in '"\\\n\r\t') or t != t.strip())
                  for t in descs.values())
    nontrivial = (not isinstance(declared, NotPassed) and not declared) or hostile or case["kind"] in (
        "typelist1", "typelistN", "compose", "compose2")
    cls = ["shape:" + case["kind"], "where:" + case["where"]]
    if not isinstance(declared, NotPassed):
        cls.append("default:" + ("falsy" if not declared else "truthy"))
    if hostile:
        cls.append("hostile-description")
    stats.case(canon(schema), nontrivial, cls, sample={"schema": schema})
    return fails


replay_predicate = predicate


def run_shard(ctx, stats):
    strat = st.one_of(cases(), cases(), cases(), cases(), shared_cases(), subclass_cases(), definitions_cases())
    return runner.hyp_run(ctx, stats, strat, predicate, BUDGET[ctx.tier])
