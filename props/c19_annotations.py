"""C19 - generated type annotations are sound for every value a model can hold."""
import ast
import copy

from hypothesis import strategies as st

from vlib import common_classes as cc, findings, observe, recipes as R, ref6, runner
from vlib import schemas as sg
from vlib.jsonvals import canon
from vlib.values_for import instance_of, perturb

from statham.schema.constants import Maybe, NotPassed
from statham.schema.elements.meta import ObjectMeta

PID = "C19"
RULE = (
    "case = model class (DSL recipe, or parsed from its schema) whose properties / array items hold "
    "arbitrary element recipes (typed leaves, arrays incl. tuple items x additionalItems, classes, "
    "AnyOf/OneOf/AllOf/Not in any nesting, required / defaulted / optional; defaults restricted to "
    "ones valid for their schema) x 5-8 values from the constructive sampler; for every accepted "
    "value EVERY model instance reachable in the result is checked: each attribute value must belong "
    "to the evaluated annotation read as a type checker does; non-Maybe annotation => required or "
    "default, and the value is never NotPassed; the annotation printed in the generated property line "
    "equals prop.annotation; non-trivial = accepted value on a model with >=1 non-leaf property "
    "element; distinct = canon(recipe, value)"
)
RULE += (
    ' Parsed-mode recipes go through the documented loader a quarter of the time.'
)
ASSUMPTIONS = [
    "type-checker reading: Any; None; bool; int (bool is a subclass); float accepts int (PEP 484 tower); str; List[T]; Union; classes by isinstance; NotPassed only under Maybe",
    "defaults that ref6 does not judge valid for their own schema are removed from the generated recipe (the property quantifies over valid defaults)",
]
BUDGET = {"quick": 480, "thorough": 4500}

observe.register_formats()
_DEV = ref6.Opts(int_is_int=True, formats=sg.FORMAT_PREDICATES, waiver=True)
CFG = R.RCfg(depth=3, explicit_required=True, kw_max=1, literal_constraints=False, compose_bias=2, nothing=False)


def sanitize_defaults(recipe):
    """Drop defaults that are not valid for their own schema (quantifier restriction)."""
    recipe = copy.deepcopy(recipe)
    idx = R.index(recipe)
    for node in idx.values():
        kw = node.get("kw", {})
        if "default" in kw:
            trial = copy.deepcopy(node)
            trial["kw"] = {k: v for k, v in kw.items() if k != "default"}
            schema = R.to_schema(trial, idx)
            try:
                ok = ref6.validate(schema, copy.deepcopy(kw["default"]), _DEV) is True
            except RecursionError:
                ok = False
            if not ok:
                del kw["default"]
    # a subclass INHERITS its parent's default, which must then be valid for the subclass too (it may add required
    # properties): otherwise the default is dropped where it is defined
    for _ in range(4):
        changed = False
        for node in idx.values():
            if node.get("kind") != "Object" or not node.get("base") or "default" in node.get("kw", {}):
                continue
            kw_flat = R.flat_class(node, idx)[0]
            if "default" not in kw_flat:
                continue
            schema = R.to_schema(node, idx)
            schema = {k: v for k, v in schema.items() if k != "default"} if isinstance(schema, dict) else schema
            try:
                ok = ref6.validate(schema, copy.deepcopy(kw_flat["default"]), _DEV) is True
            except RecursionError:
                ok = False
            if not ok:
                anc = node
                while anc.get("base"):
                    anc = idx[anc["base"]["ref"]] if "ref" in anc["base"] else anc["base"]
                    if "default" in anc.get("kw", {}):
                        del anc["kw"]["default"]
                        changed = True
                        break
        if not changed:
            break
    # a declared property that also matches a patternProperties regex is governed by both schemas:
    # its default must be valid for the pattern schema too (else it is legitimately returned as-is)
    import re as _re

    for node in idx.values():
        patterns = (node.get("sub") or {}).get("patternProperties")
        if not isinstance(patterns, dict):
            continue
        for p in node.get("props") or []:
            src = p["source"] if p.get("source") is not None else p["name"]
            el = p["element"] if "kind" in p["element"] else idx[p["element"]["ref"]]
            if "default" not in el.get("kw", {}):
                continue
            for pat, sub in patterns.items():
                if _re.search(pat, src):
                    try:
                        ok = ref6.validate(R.to_schema(sub, idx), copy.deepcopy(el["kw"]["default"]), _DEV) is True
                    except RecursionError:
                        ok = False
                    if not ok:
                        del el["kw"]["default"]
                        break
    return recipe


@st.composite
def cases(draw):
    if draw(st.integers(0, 9)) == 0:
        recipe, fam_values = draw(R.inheritance_family())
        if recipe["kind"] == "Object":
            return {"mode": "dsl", "recipe": recipe, "values": fam_values, "excluded": 0, "pipeline": "plain"}
    recipe = draw(R.recipes(CFG, kinds=["Object"]))
    excluded = [0]
    if findings.is_open(PID, "pyname-key-collision"):
        # exclusion by construction, in DEFAULTS too (an omitted property feeds its default through the same code)
        names0 = cc.renamed_pynames_recipe(recipe) | cc.renamed_pynames_schema(R.to_schema(recipe))
        for node in R.index(recipe).values():
            if "default" in node.get("kw", {}):
                node["kw"]["default"] = cc.strip_keys(node["kw"]["default"], names0, excluded)
    tuple_values = []
    if recipe.get("kind") == "Object" and draw(st.integers(0, 5)) == 0 and not any(
            p["name"] == "tup" or p.get("source") == "tup" for p in recipe.get("props", [])):
        # a TUPLE array whose length limits sit right at the end of the positional items: which item types can
        # occur depends on maxItems / additionalItems together
        kinds = draw(st.lists(st.sampled_from(["Integer", "String", "Null", "Boolean"]), min_size=1, max_size=3))
        sub = {"items": [{"id": 9400 + i, "kind": k, "kw": {}} for i, k in enumerate(kinds)]}
        extra_kind = draw(st.sampled_from([None, None, "Number", "String", "Null", False]))
        if extra_kind is False:
            sub["additionalItems"] = False
        elif extra_kind is not None:
            sub["additionalItems"] = {"id": 9410, "kind": extra_kind, "kw": {}}
        kw = {}
        if draw(st.integers(0, 3)) > 0:
            kw["maxItems"] = max(0, len(kinds) + draw(st.sampled_from([-1, 0, 1, 1, 2])))
        if draw(st.integers(0, 3)) == 0:
            kw["minItems"] = draw(st.integers(0, len(kinds)))
        recipe["props"] = list(recipe.get("props", [])) + [{
            "name": "tup", "source": None, "required": draw(st.booleans()),
            "element": {"id": 9420, "kind": "Array", "kw": kw, "sub": sub}}]
        sample = {"Integer": 1, "String": "s", "Null": None, "Boolean": True, "Number": 1.5}
        head = [sample[k] for k in kinds]
        tails = [[], [None], [1.5], ["x"], [None, None], [{"a": 1}]]
        tuple_values = [{"tup": head + t} for t in tails] + [{"tup": head[:-1]}]
    mix_values = []
    if recipe.get("kind") == "Object" and draw(st.integers(0, 5)) == 0 and not any(
            p["name"] == "mix" or p.get("source") == "mix" for p in recipe.get("props", [])):
        # an allOf whose members fall into different ANNOTATION categories (explicit type, union, untyped; a
        # composition whose alternatives all share one annotation counts as that explicit type): the member that
        # builds the value must be the one the annotation describes
        counter = [9500]

        def nid():
            counter[0] += 1
            return counter[0]

        def member():
            r = draw(st.integers(0, 7))
            if r == 0:
                return {"id": nid(), "kind": draw(st.sampled_from(["OneOf", "AnyOf"])), "kw": {}, "elements": [
                    {"id": nid(), "kind": "Integer", "kw": {"minimum": 10}}, {"id": nid(), "kind": "Integer", "kw": {"maximum": 5}}]}
            if r == 1:
                return {"id": nid(), "kind": "AnyOf", "kw": {}, "elements": [
                    {"id": nid(), "kind": "Integer", "kw": {}}, {"id": nid(), "kind": "String", "kw": {}}]}
            if r == 2:
                return {"id": nid(), "kind": "AllOf", "kw": {}, "elements": [member(), member()]}
            if r == 3:
                return {"id": nid(), "kind": "Element", "kw": {"minimum": 0}}
            if r == 4:
                return {"id": nid(), "kind": "AnyOf", "kw": {}, "elements": [{"id": nid(), "kind": "Number", "kw": {}}]}
            return {"id": nid(), "kind": draw(st.sampled_from(["Number", "Integer", "Number", "Element"])), "kw": {}}

        recipe["props"] = list(recipe.get("props", [])) + [{
            "name": "mix", "source": None, "required": False,
            "element": {"id": nid(), "kind": "AllOf", "kw": {}, "elements": [member() for _ in range(draw(st.integers(2, 3)))]}}]
        mix_values = [{"mix": v} for v in (3, 50, 12, 0, 1.5, "s")]
    recipe = sanitize_defaults(recipe)
    # nested defaults may have become invalid for enclosing schemas' defaults: one more pass
    recipe = sanitize_defaults(recipe)
    schema = R.to_schema(recipe)
    values = []
    for _ in range(draw(st.integers(5, 8))):
        v = draw(instance_of(schema))
        if draw(st.integers(0, 4)) == 0:
            v = draw(perturb(v))
        values.append(v)
    # ... and values that LACK one member (a required one, with luck): they must be rejected, not half-built
    def drop_one(v, depth=0):
        if isinstance(v, dict) and v:
            keys = sorted(v, key=str)
            k = keys[draw(st.integers(0, len(keys) - 1))]
            if depth < 2 and isinstance(v[k], (dict, list)) and v[k] and draw(st.booleans()):
                return {**v, k: drop_one(v[k], depth + 1)}
            return {kk: vv for kk, vv in v.items() if kk != k}
        if isinstance(v, list) and v:
            i = draw(st.integers(0, len(v) - 1))
            return v[:i] + [drop_one(v[i], depth + 1)] + v[i + 1:]
        return v

    values += [drop_one(v) for v in values[:3] if isinstance(v, (dict, list)) and v]
    if tuple_values:
        base = values[0] if values and isinstance(values[0], dict) else {}
        values = values[:3] + [{**base, **tv} for tv in tuple_values]
    if mix_values:
        base = values[0] if values and isinstance(values[0], dict) else {}
        values = values[:3] + [{**{k: v for k, v in base.items() if k != "mix"}, **mv} for mv in mix_values]
    if findings.is_open(PID, "pyname-key-collision"):
        # exclusion by construction: keep the search budget for everything else
        names = cc.renamed_pynames_recipe(recipe) | cc.renamed_pynames_schema(schema)
        values = [cc.strip_keys(v, names, excluded) for v in values]
    return {"mode": draw(st.sampled_from(["dsl", "dsl", "parsed"])), "recipe": recipe, "values": values,
            "excluded": excluded[0], "pipeline": draw(st.sampled_from(observe.PIPELINES))}


def namespace(classes):
    """Names an annotation may use: typing names, Maybe, builtins, the model's classes."""
    ns = {"Any": "Any", "List": "List", "Union": "Union", "Maybe": "Maybe", "None": None,
          "int": int, "float": float, "str": str, "bool": bool}
    ns.update(classes)
    return ns


def evaluate(text, ns):
    """Evaluate an annotation expression to a small type term.

    Own evaluator instead of eval()+typing: typing caches subscripted generics by the
    equality/hash of their arguments, and statham classes compare equal by content, so
    typing would hand back a Union holding an equal class from an *earlier* case.
    Terms: ("any",) | ("none",) | ("prim", type) | ("class", cls) | ("list", term|None) |
           ("union", [terms]) | ("notpassed",)
    """
    node = ast.parse(text, mode="eval").body

    def ev(n):
        if isinstance(n, ast.Constant) and n.value is None:
            return ("none",)
        if isinstance(n, ast.Name):
            if n.id not in ns:
                raise NameError(n.id)
            v = ns[n.id]
            if v == "Any":
                return ("any",)
            if v == "List":
                return ("list", None)
            if v is None:
                return ("none",)
            if v in (int, float, str, bool):
                return ("prim", v)
            if isinstance(v, ObjectMeta):
                return ("class", v)
            raise TypeError(f"bare {n.id}")
        if isinstance(n, ast.Subscript) and isinstance(n.value, ast.Name):
            head = ns.get(n.value.id)
            args = n.slice.elts if isinstance(n.slice, ast.Tuple) else [n.slice]
            terms = [ev(a) for a in args]
            if head == "List" and len(terms) == 1:
                return ("list", terms[0])
            if head == "Union" and terms:
                return ("union", terms)
            if head == "Maybe" and len(terms) == 1:
                return ("union", [terms[0], ("notpassed",)])
            raise TypeError(f"subscript of {n.value.id}")
        raise TypeError(ast.dump(n)[:80])

    return ev(node)


def conforms(value, tp):
    tag = tp[0]
    if tag == "any":
        return True
    if tag == "none":
        return value is None
    if tag == "notpassed":
        return isinstance(value, NotPassed)
    if tag == "prim":
        t = tp[1]
        if t is bool:
            return isinstance(value, bool)
        if t is int:
            return isinstance(value, int)
        if t is float:
            return isinstance(value, (int, float))
        if t is str:
            return isinstance(value, str)
    if tag == "list":
        if not isinstance(value, list):
            return False
        return tp[1] is None or all(conforms(v, tp[1]) for v in value)
    if tag == "union":
        return any(conforms(value, t) for t in tp[1])
    if tag == "class":
        return isinstance(value, tp[1])
    return None


def reachable_classes(element, acc=None):
    from statham.serializers.orderer import get_children

    acc = {} if acc is None else acc
    for el in [element] + list(get_children(element)):
        if isinstance(el, ObjectMeta):
            acc[el.__name__] = el
    return acc


def instances(result, acc, depth=0):
    if depth > 50:
        return
    if isinstance(type(result), ObjectMeta):
        acc.append(result)
        for key in result._dict:  # noqa: SLF001
            instances(result[key], acc, depth + 1)
    elif isinstance(result, dict):
        for v in result.values():
            instances(v, acc, depth + 1)
    elif isinstance(result, list):
        for v in result:
            instances(v, acc, depth + 1)


def predicate(case, stats):
    recipe = case["recipe"]
    if case["mode"] == "parsed":
        parsed = observe.safe_parse(R.to_schema(recipe), case.get("pipeline"))
        if parsed[0] != "ok":
            stats.case(canon(case), False, ["parse-refused"])
            return []
        root = parsed[1]
    else:
        root = R.build(recipe)
    # history: every class of the tree has validated something already, parents before their subclasses (whatever a
    # parent class remembers from its own use must not reach the subclass)
    for cls_ in sorted(reachable_classes(root).values(), key=lambda c: len(c.__mro__)):
        for anc in cls_.__mro__[::-1]:
            if isinstance(anc, ObjectMeta) and anc.__name__ != "Object":
                observe.verdict(anc, {})
    ns = namespace(reachable_classes(root))
    fails = []
    stats.excluded["pyname-key-collision"] += case.get("excluded", 0)
    idx = R.index(recipe)
    structured = any(
        (p["element"].get("kind") or idx[p["element"]["ref"]]["kind"]) not in
        ("String", "Integer", "Number", "Boolean", "Null", "Element", "Nothing")
        for n in idx.values() for p in n.get("props") or []
    )
    twin_root = R.build(recipe) if case["mode"] == "dsl" else None  # equal classes, other class objects
    runs = []
    for value in case["values"]:
        runs.append((value, None))
        if twin_root is not None and isinstance(value, dict) and len(runs) < 40:
            # the same data, but with nested objects already built - by the TWIN tree's classes (equal, not identical)
            tw = observe.verdict(twin_root, value)
            if tw[0] == "ok" and isinstance(type(tw[1]), ObjectMeta):
                mixed, swapped = dict(copy.deepcopy(value)), False
                for name_, prop_ in type(tw[1]).properties.items():
                    member = getattr(tw[1], name_, None)
                    src_ = prop_.source if prop_.source is not None else name_
                    if src_ in mixed and (isinstance(type(member), ObjectMeta) or (
                            isinstance(member, list) and any(isinstance(type(x), ObjectMeta) for x in member))):
                        mixed[src_] = member
                        swapped = True
                if swapped:
                    runs.append((value, mixed))
    for value, prebuilt in runs:
        if prebuilt is None:
            got = observe.verdict(root, value)
        else:
            try:
                with __import__("warnings").catch_warnings():
                    __import__("warnings").simplefilter("ignore")
                    got = ("ok", root(prebuilt))
            except Exception as exc:  # noqa: BLE001 - rejection is the expected outcome here
                got = ("reject", type(exc).__name__)
        classes = ["mode:" + case["mode"], "verdict:" + got[0]] + (["input:prebuilt-by-equal-classes"] if prebuilt else [])
        if got[0] != "ok":
            stats.case(canon([recipe, value, bool(prebuilt)]), False, classes)
            continue
        found = []
        instances(got[1], found)
        for inst in found:
            cls = type(inst)
            for name, prop in cls.properties.items():
                text = prop.annotation
                line = prop.python()
                if not line.startswith(f"{name}: {text} = "):
                    fails.append({"sub": "text", "kind": "annotation-text-differs", "detail": [line[:200], text]})
                try:
                    tp = evaluate(text, ns)
                except Exception as exc:  # noqa: BLE001
                    fails.append({"sub": "eval", "kind": "annotation-does-not-evaluate:" + type(exc).__name__,
                                  "annotation": text, "class": cls.__name__, "property": name})
                    continue
                runtime = getattr(inst, name)
                ok = conforms(runtime, tp)
                classes.append("ann:" + ("Maybe" if text.startswith("Maybe[") else "present"))
                if ok is None:
                    fails.append({"sub": "conform", "kind": "unknown-annotation-form", "annotation": text})
                elif not ok:
                    fails.append({"sub": "conform", "kind": "value-not-in-annotated-type", "annotation": text,
                                  "runtime": repr(runtime)[:200], "runtime_type": type(runtime).__name__,
                                  "class": cls.__name__, "property": name, "value": value,
                                  "element": repr(prop.element)[:300]})
                if not text.startswith("Maybe["):
                    has_default = not isinstance(getattr(prop.element, "default", NotPassed()), NotPassed)
                    if not (prop.required or has_default):
                        fails.append({"sub": "presence", "kind": "always-present-without-required-or-default",
                                      "annotation": text, "class": cls.__name__, "property": name})
                    if isinstance(runtime, NotPassed):
                        fails.append({"sub": "presence", "kind": "always-present-but-not-passed",
                                      "annotation": text, "class": cls.__name__, "property": name, "value": value,
                                      "source": prop.source})
        stats.case(canon([recipe, value]), structured and bool(found), classes,
                   sample={"recipe": recipe, "value": value,
                           "annotations": {n: p.annotation for n, p in type(got[1]).properties.items()}
                           if isinstance(type(got[1]), ObjectMeta) else None})
    return fails


replay_predicate = predicate


@findings.classifier(PID, "pyname-key-collision")
def _pyname_collision(case, failure):
    """Input key equal to the Python name of a renamed property is stored as that property."""
    names = cc.renamed_pynames_recipe(case["recipe"]) | cc.renamed_pynames_schema(R.to_schema(case["recipe"]))
    return (
        failure.get("kind") == "value-not-in-annotated-type"
        and failure.get("property") in names
        and cc.has_key_in(failure.get("value"), {failure.get("property")})
    )


PROBES = {
    "pyname-key-collision": [
        {"mode": "dsl", "values": [{"a": None}],
         "recipe": {"id": 1, "kind": "Object", "kw": {}, "name": "Foo", "props": [
             {"element": {"id": 2, "kind": "String", "kw": {}}, "name": "a", "required": False, "source": "class"}]}},
    ]
}


def run_shard(ctx, stats):
    return runner.hyp_run(ctx, stats, cases(), predicate, BUDGET[ctx.tier])
