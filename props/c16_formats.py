"""C16 - format checking consults exactly the registered checker."""
import copy
import uuid
import warnings

from hypothesis import strategies as st
from hypothesis.stateful import RuleBasedStateMachine, initialize, rule

from vlib import observe, runner
from vlib import jsonvals as jv
from vlib.jsonvals import canon

from statham.schema.elements import Element, String
from statham.schema.parser import parse_element
from statham.schema.validation.format import format_checker

PID = "C16"
RULE = (
    "sub-check A (state machine): history of register(name, predicate) and check(kind, name, value) "
    "steps against a dictionary model of the registry; names from a pool (incl. the built-ins uuid / "
    "date-time, names with odd characters) and arbitrary text; predicates from a finite total family "
    "(len(s) % k == r, contains c, always, never); kind in String(format=), Element(format=), parsed "
    "{'format': n}, parsed {'type': 'string', 'format': n}; value = any JSON. Expected: the verdict "
    "equals the verdict of the same element without `format`, except that a str is rejected iff the "
    "name is registered and the current predicate returns False; a RuntimeWarning is recorded iff the "
    "value is a str and the name is unregistered; re-registration replaces. sub-check B: "
    "str(UUID(int=n)) for n over all 2^128 (lower/upper case, urn: and braces excluded) must be "
    "accepted by format uuid; RFC 3339 timestamps generated from the ABNF of section 5.6 with the "
    "restrictions of 5.7 (classes: ordinary years 0001-9999, leap second 23:59:60 on Jun 30 / Dec 31 "
    "UTC-equivalent, year 0000) must be accepted by format date-time. sub-check C: short histories (registrations "
    "of built-in and other names before and after the first check, then checks on strings whose status the statement "
    "fixes) each run in a NEW interpreter, so that the first format-related action of a process is part of the "
    "generated history; same model. non-trivial = history with a "
    "re-registration or a check that hits a registered name with a str; or any built-in case; "
    "distinct = canon(history) / the string"
)
RULE += (
    ' Round 9: kinds anyOf-later-member, parsed-anyOf-later-member, allOf-later-member put the format on a member that is not the first to accept the value (anyOf kinds compare warnings and checker consultations only: the first member accepts everything).'
)
ASSUMPTIONS = [
    "the process-wide registry is saved at the start of each case and restored at teardown",
    "RFC 3339 generator follows section 5.6 (date-fullyear 4DIGIT, T/t, Z/z, 1+ fraction digits, numeric offset +-00:00..23:59)",
]
BUDGET = {"quick": (160, 20, 1500, 25), "thorough": (1200, 40, 12000, 300)}  # machines, steps, builtin examples, fresh-process histories

NAMES = ["uuid", "date-time", "my_format", "email", "x", "", "ipv4", "日付", "a b", "UUID", "date_time"]
PREDS = [("always",), ("never",), ("len_mod", 2, 0), ("len_mod", 3, 1), ("contains", "a"), ("contains", "-")]
KINDS = ["String", "Element", "parsed-untyped", "parsed-string", "String+enum", "Element+const", "parsed+enum",
         # the same keyword reached through a composition member that is not the first to accept the value / through
         # the item schema of an array position other than the first
         "anyOf-later-member", "parsed-anyOf-later-member", "allOf-later-member"]


DOCSTRINGS = [None, "Plain words.", "Match ``[A-Z]{3}-[0-9]{4}``.", "{name} must hold", "100%s sure {0} {}", "}{",
              "first line\n{second}"]


def make_pred(spec):
    fn = _make_pred(spec)
    # a registered checker is whatever function the user wrote - docstring and all
    doc = DOCSTRINGS[(len(repr(spec)) + sum(map(ord, repr(spec)))) % len(DOCSTRINGS)]

    def checker(value):
        return fn(value)

    checker.__doc__ = doc
    return checker


def _make_pred(spec):
    if spec[0] == "always":
        return lambda s: True
    if spec[0] == "never":
        return lambda s: False
    if spec[0] == "len_mod":
        return lambda s: len(s) % spec[1] == spec[2]
    return lambda s: spec[1] in s


def element(kind, name=None, value=None):
    kw = {} if name is None else {"format": name}
    if "+" in kind:
        # the checked value itself is a member of the literal keyword, so only the format can reject it
        literal = copy.deepcopy(value)
        if kind == "String+enum":
            return String(enum=[literal, "other"], **kw)
        if kind == "Element+const":
            return Element(const=literal, **kw)
        return parse_element({"enum": ["zzz", literal], **kw})
    if kind == "anyOf-later-member":
        from statham.schema.elements import AnyOf
        return AnyOf(Element(), Element(**kw)) if name is not None else AnyOf(Element(), Element())
    if kind == "parsed-anyOf-later-member":
        return parse_element({"anyOf": [{"minLength": 0}, dict(kw, maxLength=10 ** 6)]})
    if kind == "allOf-later-member":
        from statham.schema.elements import AllOf
        return AllOf(Element(), Element(**kw))
    if kind == "String":
        return String(**kw)
    if kind == "Element":
        return Element(**kw)
    if kind == "parsed-untyped":
        return parse_element(dict(kw))
    return parse_element({"type": "string", **kw})


class Harness:
    def __init__(self):
        self.saved = dict(format_checker._callable_register)  # noqa: SLF001 - process-wide state
        self.builtin = {k: ("builtin", k) for k in self.saved}
        self.model = dict(self.builtin)  # name -> spec
        self.history = []
        self.held = []
        self.rereg = False
        self.hit = False

    def restore(self):
        format_checker._callable_register.clear()  # noqa: SLF001
        format_checker._callable_register.update(self.saved)  # noqa: SLF001

    def case(self):
        return {"history": copy.deepcopy(self.history)}

    def check_held(self, op):
        """A `Format` validator OBJECT (documented as directly usable) kept across registrations: what it does is
        decided by the registry at the moment it is called."""
        from statham.schema.elements.base import UNBOUND_PROPERTY

        if not self.held:
            return []
        name, validator = self.held[op["index"] % len(self.held)]
        value = op["value"]
        with warnings.catch_warnings(record=True) as caught:
            warnings.simplefilter("always")
            try:
                validator(copy.deepcopy(value), UNBOUND_PROPERTY)
                got = "ok"
            except Exception as exc:  # noqa: BLE001
                got = "reject" if type(exc).__name__ == "ValidationError" else "crash:" + type(exc).__name__
        warned = [w for w in caught if issubclass(w.category, RuntimeWarning)]
        is_str = isinstance(value, str)
        registered = name in self.model
        fmt_ok = True
        if is_str and registered:
            self.hit = True
            spec = self.model[name]
            fmt_ok = bool(self.saved[name](value)) if spec[0] == "builtin" else bool(make_pred(spec)(value))
        expected = "ok" if fmt_ok else "reject"
        fails = []
        if got != expected:
            fails.append({"sub": "held-validator", "kind": ("checker-false-but-accepted" if got == "ok" else
                                                             "checker-true-but-rejected" if got == "reject" else got)
                          + "(held Format validator)", "name": name, "value": value, "registered": registered})
        want_warning = is_str and not registered
        if bool(warned) != want_warning:
            fails.append({"sub": "held-validator", "kind": ("warning-missing" if want_warning else "unexpected-warning")
                          + "(held Format validator)", "name": name, "value": value})
        return fails

    def apply(self, op):
        self.history.append(copy.deepcopy(op))
        if op["op"] == "hold":
            from statham.schema.validation import Format

            self.held.append((op["name"], Format(op["name"])))
            return []
        if op["op"] == "check_held":
            return self.check_held(op)
        if op["op"] == "register":
            spec = tuple(op["pred"])
            if op["name"] in self.model:
                self.rereg = True
            format_checker.register(op["name"])(make_pred(spec))
            self.model[op["name"]] = spec
            return []
        name, value, kind = op["name"], op["value"], op["kind"]
        base = observe.verdict(element(kind, None, value), value)
        with warnings.catch_warnings(record=True) as caught:
            warnings.simplefilter("always")
            el = element(kind, name, value)
            arg = copy.deepcopy(value)
            try:
                el(arg)
                got = "ok"
            except Exception as exc:  # noqa: BLE001
                got = "reject" if type(exc).__name__ in ("ValidationError", "TypeError") else "crash:" + type(exc).__name__
        warned = [w for w in caught if issubclass(w.category, RuntimeWarning)]
        is_str = isinstance(value, str)
        registered = name in self.model
        fails = []
        if is_str and registered:
            self.hit = True
            spec = self.model[name]
            if spec[0] == "builtin":
                fmt_ok = bool(self.saved[name](value))
            else:
                fmt_ok = bool(make_pred(spec)(value))
        else:
            fmt_ok = True
        if "anyOf" in kind:
            fmt_ok = True  # another member accepts every value: the format can warn, it cannot reject
        expected = "reject" if (base[0] != "ok" or not fmt_ok) else "ok"
        if got != expected:
            if got == "reject" and base[0] == "ok":
                kindname = ("non-string-rejected-on-account-of-format" if not is_str else
                            "unregistered-format-rejects" if not registered else "checker-true-but-rejected")
            elif got == "ok":
                kindname = "checker-false-but-accepted"
            else:
                kindname = got
            fails.append({"sub": "check", "kind": kindname, "name": name, "value": value, "element": kind,
                          "registered": registered})
        want_warning = is_str and not registered and base[0] == "ok"
        if bool(warned) != want_warning:
            fails.append({"sub": "warning", "kind": "warning-missing" if want_warning else "unexpected-warning",
                          "name": name, "value": value, "element": kind})
        return fails


class Machine(RuleBasedStateMachine):
    _sink = None
    _stats = None

    def __init__(self):
        super().__init__()
        self.h = Harness()

    def _do(self, op):
        if runner.shrink_budget_exceeded(self._sink):
            return
        finished, fails = runner.time_limited(lambda: self.h.apply(op), self._stats, "step")
        if not finished:
            return
        unknown = runner.triage(PID, self.h.case(), fails, self._stats)
        if unknown:
            case = self.h.case()
            self.h.restore()
            runner.record_violation(self._sink, case, unknown)
            raise runner.Violation(case, unknown)

    @rule(name=st.one_of(st.sampled_from(NAMES), jv.small_text), pred=st.sampled_from(PREDS))
    def register(self, name, pred):
        self._do({"op": "register", "name": name, "pred": list(pred)})

    @rule(kind=st.sampled_from(KINDS), name=st.one_of(st.sampled_from(NAMES), jv.small_text),
          value=st.one_of(jv.strings, jv.strings, jv.json_values(max_leaves=3),
                          st.sampled_from(["12345678-1234-5678-1234-567812345678", "1990-12-31T23:59:59Z", "a-"])))
    def check(self, kind, name, value):
        self._do({"op": "check", "kind": kind, "name": name, "value": value})

    @rule(name=st.one_of(st.sampled_from(NAMES), st.sampled_from(NAMES), jv.small_text))
    def hold(self, name):
        self._do({"op": "hold", "name": name})

    @rule(index=st.integers(0, 20), value=st.one_of(jv.strings, jv.strings, st.sampled_from(
        ["12345678-1234-5678-1234-567812345678", "1990-12-31T23:59:59Z", "a-", 5, None])))
    def check_held(self, index, value):
        self._do({"op": "check_held", "index": index, "value": value})

    @rule(index=st.integers(0, 50))
    def recheck(self, index):
        """The same (element kind, name, value) again, after whatever registrations happened since."""
        checks = [o for o in self.h.history if o["op"] == "check"]
        if checks:
            self._do(copy.deepcopy(checks[index % len(checks)]))

    def teardown(self):
        self.h.restore()
        if self._stats is not None:
            h = self.h
            ops = [o["op"] for o in h.history]
            self._stats.case(canon(h.case()), h.rereg or h.hit,
                             ["re-registration"] * h.rereg + ["registered-str-hit"] * h.hit + ["steps:%d" % min(len(ops), 40)],
                             n=max(1, ops.count("check")), sample=h.case())


# ------------------------------------------------- histories in a new interpreter
# what the statement fixes about the BUILT-IN checkers: canonical UUIDs / RFC 3339 timestamps are accepted (True); about
# any other string it says nothing (None = either verdict; the built-in date-time checker is deliberately lenient).
# Once a name has been re-registered the generated predicate decides every string.
TRUTH = {
    "uuid": {"12345678-1234-5678-1234-567812345678": True, "00000000-0000-0000-0000-000000000000": True,
             "not-a-uuid": None, "2019-11-17": None, "": None, "abc": None},
    "date-time": {"1990-12-31T23:59:59Z": True, "2019-11-17T10:00:00+01:00": True, "2019-11-17": None,
                  "yesterday": None, "": None, "abc": None},
}
FRESH_KINDS = ["String", "Element", "parsed-untyped", "parsed-string"]


@st.composite
def fresh_histories(draw):
    """What a program does at import time and after: (re-)register some names - the built-in ones above all - BEFORE
    or after the first format check of the process, then check."""
    ops = []
    names = ["uuid", "date-time", "uuid", "date-time", "my_format", "email"]
    for _ in range(draw(st.integers(0, 2))):
        ops.append({"op": "register", "name": draw(st.sampled_from(names)), "pred": list(draw(st.sampled_from(PREDS)))})
    for _ in range(draw(st.integers(2, 6))):
        if draw(st.integers(0, 4)) == 0:
            ops.append({"op": "register", "name": draw(st.sampled_from(names)),
                        "pred": list(draw(st.sampled_from(PREDS)))})
            continue
        name = draw(st.sampled_from(names))
        pool = sorted(TRUTH.get(name, TRUTH["uuid"]))
        value = draw(st.one_of(st.sampled_from(pool), st.sampled_from(pool), st.sampled_from([5, None, ["a"]])))
        ops.append({"op": "check", "kind": draw(st.sampled_from(FRESH_KINDS)), "name": name, "value": value})
    return {"fresh_history": ops}


def run_fresh(history):
    import json
    import os
    import subprocess
    import sys
    from vlib import repo

    home = os.path.dirname(os.path.dirname(os.path.abspath(__file__)))
    env = dict(os.environ, PYTHONPATH=os.pathsep.join([os.path.join(home, ".deps"), home]), PYTHONHASHSEED="0",
               VERIF_REPO_DIR=repo.REPO_DIR)
    p = subprocess.run([sys.executable, "-W", "ignore", "-m", "vlib.c16_fresh_driver"],
                       input=json.dumps({"history": history}).encode(), stdout=subprocess.PIPE,
                       stderr=subprocess.PIPE, env=env, timeout=300, cwd=home)
    if p.returncode != 0:
        raise runner.HarnessError("c16_fresh_driver failed: " + p.stderr.decode()[-600:])
    return json.loads(p.stdout.decode())


def fresh_predicate(case, stats):
    history = case["fresh_history"]
    results = run_fresh(history)
    model = {"uuid": ("builtin", "uuid"), "date-time": ("builtin", "date-time")}
    fails = []
    rereg = hit = False
    first_check_seen = False
    early_builtin_rereg = False
    for op, res in zip(history, results):
        if op["op"] == "register":
            if op["name"] in model:
                rereg = True
                if not first_check_seen and op["name"] in TRUTH:
                    early_builtin_rereg = True
            model[op["name"]] = tuple(op["pred"])
            continue
        first_check_seen = True
        got, warned, base = res
        name, value = op["name"], op["value"]
        is_str = isinstance(value, str)
        registered = name in model
        fmt_ok = True
        if is_str and registered:
            hit = True
            spec = model[name]
            fmt_ok = TRUTH[name][value] if spec[0] == "builtin" else bool(make_pred(spec)(value))
        if fmt_ok is None and base == "ok":
            continue  # built-in checker on a string the statement says nothing about
        expected = "reject" if (base != "ok" or not fmt_ok) else "ok"
        if got != expected:
            kindname = ("checker-false-but-accepted" if got == "ok" else
                        "non-string-rejected-on-account-of-format" if not is_str else
                        "unregistered-format-rejects" if not registered else
                        "checker-true-but-rejected" if got == "reject" else got)
            fails.append({"sub": "fresh-process", "kind": kindname, "name": name, "value": value,
                          "element": op["kind"], "registered": registered, "current_checker": list(model.get(name, []))})
        want_warning = is_str and not registered and base == "ok"
        if bool(warned) != want_warning:
            fails.append({"sub": "fresh-process", "kind": "warning-missing" if want_warning else "unexpected-warning",
                          "name": name, "value": value, "element": op["kind"]})
    stats.case("fresh:" + canon(history), rereg or hit,
               ["fresh-process"] + ["re-registration"] * rereg + ["builtin-re-registered-before-first-check"] * early_builtin_rereg,
               n=max(1, sum(1 for o in history if o["op"] == "check")), sample=case)
    stats.extra["subprocesses"] = stats.extra.get("subprocesses", 0) + 1
    return fails


# ------------------------------------------------------------- built-ins
def days_in_month(y, m):
    if m == 2:
        return 29 if (y % 4 == 0 and (y % 100 != 0 or y % 400 == 0)) else 28
    return 30 if m in (4, 6, 9, 11) else 31


@st.composite
def rfc3339(draw):
    cls = draw(st.sampled_from(["ordinary", "ordinary", "ordinary", "leap-second", "year-0000"]))
    year = 0 if cls == "year-0000" else draw(st.one_of(st.integers(1, 9999), st.sampled_from([1, 1970, 2000, 2024, 9999, 1900])))
    month = draw(st.integers(1, 12))
    day = draw(st.one_of(st.integers(1, days_in_month(year, month)), st.just(days_in_month(year, month))))
    hour, minute, second = draw(st.integers(0, 23)), draw(st.integers(0, 59)), draw(st.integers(0, 59))
    if draw(st.booleans()):
        offset = draw(st.sampled_from(["Z", "z"]))
        off_minutes = 0
    else:
        oh, om = draw(st.integers(0, 23)), draw(st.integers(0, 59))
        sign = draw(st.sampled_from(["+", "-"]))
        offset = f"{sign}{oh:02d}:{om:02d}"
        off_minutes = (oh * 60 + om) * (1 if sign == "+" else -1)
    if cls == "leap-second":
        # 23:59:60 UTC on Jun 30 / Dec 31, expressed in the chosen offset (section 5.7)
        year = min(max(year, 2), 9998)
        month, day = draw(st.sampled_from([(6, 30), (12, 31)]))
        total = 23 * 60 + 59 + off_minutes
        day_shift, rem = divmod(total, 24 * 60)
        hour, minute, second = rem // 60, rem % 60, 60
        if day_shift == 1:
            month, day = (7, 1) if month == 6 else (1, 1)
            if month == 1:
                year += 1
        elif day_shift == -1:
            day -= 1
    frac = draw(st.one_of(st.just(""), st.integers(1, 9).flatmap(
        lambda n: st.text(alphabet="0123456789", min_size=n, max_size=n)).map(lambda d: "." + d)))
    sep = draw(st.sampled_from(["T", "T", "t"]))
    text = f"{year:04d}-{month:02d}-{day:02d}{sep}{hour:02d}:{minute:02d}:{second:02d}{frac}{offset}"
    return {"kind": "date-time", "class": cls, "value": text}


uuids = st.builds(
    lambda n, upper: {"kind": "uuid", "class": "upper" if upper else "lower",
                      "value": str(uuid.UUID(int=n)).upper() if upper else str(uuid.UUID(int=n))},
    st.one_of(st.integers(0, 2 ** 128 - 1), st.sampled_from([0, 2 ** 128 - 1, 1, 2 ** 64])), st.booleans())


def builtin_predicate(case, stats):
    fmt = case["kind"]
    fails = []
    stats.case(fmt + ":" + case["value"], True, [f"{fmt}:{case['class']}"], sample=case)
    for el in (String(format=fmt), Element(format=fmt)):
        got = observe.verdict(el, case["value"])
        if got[0] != "ok":
            fails.append({"sub": "builtin", "kind": f"builtin-{fmt}-rejects-{case['class']}", "value": case["value"],
                          "detail": list(map(str, got))[:3]})
            break
    return fails


def replay_predicate(case, stats):
    if "fresh_history" in case:
        return fresh_predicate(case, stats)
    if "history" in case:
        h = Harness()
        fails = []
        try:
            for op in case["history"]:
                fails.extend(h.apply(op))
        finally:
            h.restore()
        stats.case(canon(case), True, ["replay"])
        return fails
    return builtin_predicate(case, stats)


def run_shard(ctx, stats):
    machines, steps, n_builtin, n_fresh = BUDGET[ctx.tier]
    failure = runner.machine_run(ctx, stats, Machine, machines, steps)
    if failure:
        return failure
    failure = runner.hyp_run(ctx, stats, st.one_of(uuids, rfc3339(), rfc3339()), builtin_predicate, n_builtin, salt=7)
    if failure:
        return failure
    return runner.hyp_run(ctx, stats, fresh_histories(), fresh_predicate, n_fresh, salt=11)
