"""C14 - concurrent validation against shared models equals sequential validation."""
import copy
import sys
import threading

from hypothesis import strategies as st

from vlib import observe, recipes as R, runner
from vlib.jsonvals import canon
from vlib.sched import Scheduler
from vlib.values_for import values_for

PID = "C14"
RULE = (
    "case = element-tree recipe (shared elements/classes, properties, tuple items, compositions, "
    "defaults) x 2-4 threads each with 2-4 values (both verdicts) x a schedule = list of (gap, pick) "
    "pairs plus `focus` entries (module, n, pick: switch at the n-th line executed inside that statham "
    "module) and optionally one `dense` module (switch at every line executed inside it, up to 400 times) "
    "executed by an owned scheduler: real threads, exactly one runnable, a sys.settrace line "
    "hook in statham frames hands the baton after `gap` lines to the pick-th next thread - so a run "
    "is a deterministic function of (recipe, values, schedule). Oracle: every call's verdict kind and "
    "read-back result equal the sequential execution of the same calls on the same tree, and the tree "
    "snapshot (repr, JSON, Python text, deep dump) is unchanged afterwards; the schedule is run twice: "
    "on the tree already used by the sequential baseline and on a freshly built tree whose first-ever "
    "calls therefore race with each other; error messages are not "
    "compared. Thorough adds a free-running stress (8 threads x 150 calls, switch interval 1 us) with "
    "the same oracle. non-trivial = schedule with >=3 context switches actually taken on a tree with "
    "properties or tuple items; distinct = canon(case)"
)
RULE += (
    ' One family holds container defaults (array of objects, nested dict/list) on the shared tree, with thread values that omit them.'
)
RULE += (
    ' Round 9: family overlap - anyOf alternatives that accept common values but build them differently (1 vs 1.0, model A vs model B), threads validating values that match different branches.'
)
RULE += (
    ' Round 10: family 9220 - a model with a class-level default ({} or one member) as a property, omitted in one thread and supplied in another.'
)
ASSUMPTIONS = [
    "interleavings at line granularity of pure-Python statham frames under the GIL; C-level operations are atomic; no claim for free-threaded builds",
    "the free-running stress can only miss violations, never invent them (if the property holds no schedule can produce a mismatch)",
]
BUDGET = {"quick": 260, "thorough": 2000}

observe.register_formats()
CFG = R.RCfg(depth=2)
# small modules with shared or process-wide state get targeted switch points
MODULES = ["schema/validation/format.py", "schema/validation/format.py", "schema/validation/object.py",
           "schema/validation/base.py", "schema/validation/array.py", "schema/validation/string.py",
           "schema/elements/properties.py", "schema/elements/items.py", "schema/elements/composition.py",
           "schema/property.py", "schema/elements/base.py", "schema/elements/meta.py", "schema/elements/object.py",
           "schema/validation/__init__.py", "schema/exceptions.py", "schema/validation/numeric.py"]


@st.composite
def cases(draw):
    recipe = draw(R.recipes(CFG))
    if draw(st.integers(0, 3)) == 0:
        # process-wide format registry incl. the built-in checkers (whose bodies are statham frames)
        fmt = draw(st.sampled_from(["uuid", "date-time", "vf-even-len"]))
        inner = {"id": 9001, "kind": draw(st.sampled_from(["String", "Element"])), "kw": {"format": fmt}}
        if draw(st.booleans()):
            recipe = inner
        else:
            recipe = {"id": 9000, "kind": draw(st.sampled_from(["AnyOf", "AllOf", "Array"])), "kw": {}}
            if recipe["kind"] == "Array":
                recipe["sub"] = {"items": inner}
            else:
                recipe["elements"] = [inner, {"id": 9002, "kind": "Integer", "kw": {}}]
    elif draw(st.integers(0, 5)) == 0:
        # several array-form dependencies; the values trigger different ones
        keys = draw(st.lists(st.sampled_from(["a", "b", "c", "d"]), min_size=2, max_size=3, unique=True))
        recipe = {"id": 9100, "kind": draw(st.sampled_from(["Element", "Object"])), "kw": {},
                  "sub": {"dependencies": {k: draw(st.lists(st.sampled_from(["a", "b", "c", "d", "e"]), min_size=1,
                                                            max_size=2, unique=True)) for k in keys}}}
        if recipe["kind"] == "Object":
            recipe["name"] = "Dep"
            recipe["props"] = []
    elif draw(st.integers(0, 4)) == 0:
        # CONTAINER defaults (one list/dict object owned by the shared tree): every call that omits the property
        # converts that same object, possibly at the same moment as another thread
        line = {"id": 9201, "kind": "Object", "kw": {}, "name": "Line", "props": [
            {"name": "sku", "source": None, "required": False, "element": {"id": 9202, "kind": "String", "kw": {}}},
            {"name": "qty", "source": None, "required": False, "element": {"id": 9203, "kind": "Integer", "kw": {"default": 1}}}]}
        lines_default = draw(st.sampled_from([[{"sku": "A-1"}], [{"sku": "A"}, {"sku": "B", "qty": 2}], [{}], []]))
        meta_default = draw(st.sampled_from([{"a": [1, {"b": 2}]}, {"k": {"k": {"k": [1, 2, 3]}}}, [[1], [2, [3]]], {}]))
        recipe = {"id": 9200, "kind": draw(st.sampled_from(["Object", "Element"])), "kw": {}, "props": [
            {"name": "lines", "source": None, "required": False, "element":
                {"id": 9204, "kind": "Array", "kw": {"default": lines_default}, "sub": {"items": line}}},
            {"name": "meta", "source": draw(st.sampled_from([None, "meta-data"])), "required": False, "element":
                {"id": 9205, "kind": draw(st.sampled_from(["Element", "Element", "AnyOf"])), "kw": {"default": meta_default}}},
            {"name": "n", "source": None, "required": False, "element": {"id": 9206, "kind": "Integer", "kw": {}}}]}
        if recipe["props"][1]["element"]["kind"] == "AnyOf":
            recipe["props"][1]["element"]["elements"] = [{"id": 9207, "kind": "Array", "kw": {}},
                                                         {"id": 9208, "kind": "Element", "kw": {}}]
        if recipe["kind"] == "Object":
            recipe["name"] = "Order"
        if draw(st.booleans()):
            # a MODEL with a class-level default (the empty object, or one member) as a property: omitted in one
            # thread (built from the default), supplied in another
            recipe["props"].append({"name": "options", "source": None, "required": False, "element": {
                "id": 9210, "kind": "Object", "name": "Options", "kw": {"default": draw(st.sampled_from([{}, {}, {"retries": 7}]))},
                "props": [{"name": "retries", "source": None, "required": False,
                           "element": {"id": 9211, "kind": "Integer", "kw": {"default": 3}}},
                          {"name": "mode", "source": None, "required": False, "element": {"id": 9212, "kind": "String", "kw": {}}}]}})
            recipe["id"] = 9220
    elif draw(st.integers(0, 5)) == 0:
        # TUPLE items under named properties (per-position handling of the enclosing property), validated by
        # several threads at once
        line = {"id": 9301, "kind": "Object", "kw": {}, "name": "Line", "props": [
            {"name": "sku", "source": None, "required": False, "element": {"id": 9302, "kind": "String", "kw": {}}}]}
        recipe = {"id": 9300, "kind": draw(st.sampled_from(["Object", "Element"])), "kw": {}, "props": [
            {"name": "lines", "source": draw(st.sampled_from([None, "order-lines"])), "required": False, "element":
                {"id": 9303, "kind": "Array", "kw": {}, "sub": {
                    "items": [{"id": 9304, "kind": "String", "kw": {}}, {"id": 9305, "kind": "Integer", "kw": {}}, line],
                    "additionalItems": draw(st.sampled_from([True, False]))}}},
            {"name": "pair", "source": None, "required": False, "element":
                {"id": 9306, "kind": "Array", "kw": {}, "sub": {
                    "items": [{"id": 9307, "kind": "Number", "kw": {}}, {"id": 9308, "kind": "Number", "kw": {}}]}}}]}
        if recipe["kind"] == "Object":
            recipe["name"] = "Order"
    elif draw(st.integers(0, 6)) == 0:
        # numeric keywords against huge / tiny numbers (arithmetic beyond float precision takes other code paths,
        # possibly with per-thread state such as the decimal context)
        num = {"id": 9501, "kind": draw(st.sampled_from(["Number", "Element", "Integer"])),
               "kw": {"multipleOf": draw(st.sampled_from([0.5, 3.0, 2, 0.25, 1e-30]))}}
        recipe = draw(st.sampled_from([
            num,
            {"id": 9500, "kind": "Array", "kw": {}, "sub": {"items": num}},
            {"id": 9500, "kind": "Element", "kw": {}, "props": [
                {"name": "v", "source": None, "required": False, "element": num}]}]))
    elif draw(st.integers(0, 5)) == 0:
        # alternatives that accept common values but BUILD them differently (1 vs 1.0, model A vs model B): which one
        # built a thread's value must not depend on what another thread validated a moment ago
        from props.c08_purity import overlapping_anyof
        recipe = draw(overlapping_anyof())
        recipe["_family"] = "overlap"
    schema = R.to_schema(recipe)
    n = draw(st.integers(2, 4))
    # threads draw (with repetition) from one small pool, so that the same value is validated by
    # several threads and several times
    pool = draw(values_for(schema, 3, 5))
    if "dependencies" in canon(schema) and recipe.get("id") == 9100:
        pool += [{"a": 1}, {"b": 1}, {"c": 1, "d": 2}, {"a": 1, "b": 2, "c": 3, "d": 4, "e": 5}, {"a": 1, "e": 1},
                 {"d": 1}, {"b": 1, "a": 2}]
    if recipe.pop("_family", None) == "overlap":
        from props.c08_purity import OVERLAP_VALUES
        pool = list(OVERLAP_VALUES)
    if recipe.get("id") in (9500, 9501):
        nums = [1e30, 10 ** 40, 3.0, 1e-30, 2 ** 70 + 1, 7.5e28, -1e35, 1.5, 6, 10 ** 29]
        pool = list(nums) + [[x] for x in nums[:4]] + [{"v": x} for x in nums[:5]]
    if recipe.get("id") == 9300:
        key = "order-lines" if "order-lines" in canon(schema) else "lines"
        pool = [{key: ["a", 1, {"sku": "x"}]}, {key: ["a", 1, {"sku": "x"}], "pair": [1, 2]}, {key: ["a"]}, {key: [1]},
                {"pair": [1, 2.5]}, {"pair": ["x"]}, {key: ["a", 1, {"sku": 5}]}, {key: ["b", 2, {}, 7], "pair": [0, 0]}]
    if recipe.get("id") in (9200, 9220):
        pool = [{}, {}, {"n": 1}, {"n": 2}, {"lines": []}, {"meta": 5}] + pool[:2]
    if recipe.get("id") == 9220:
        pool = [{}, {"n": 1}, {"options": {"retries": 1}}, {"options": {}}, {"options": {"mode": "x"}, "n": 2},
                {"options": {"retries": 2, "mode": "y"}}, {"meta": 5}]
    if "format" in canon(schema):
        strs = ["12345678-1234-5678-1234-567812345678", "not-a-uuid", "1990-12-31T23:59:60Z", "yesterday", "ab", "abc"]
        pool += draw(st.lists(st.sampled_from(strs), min_size=2, max_size=3))
        if '"array"' in canon(schema):
            pool += [[draw(st.sampled_from(strs))], [draw(st.sampled_from(strs)), draw(st.sampled_from(strs))]]
    threads = [draw(st.lists(st.sampled_from(pool), min_size=2, max_size=5)) for _ in range(n)]
    schedule = draw(st.lists(st.tuples(st.one_of(st.integers(0, 30), st.integers(0, 400)), st.integers(1, 3)), min_size=4, max_size=40))
    focus = draw(st.lists(st.tuples(st.sampled_from(MODULES), st.integers(0, 40), st.integers(1, 3)), max_size=6))
    dense = draw(st.lists(st.sampled_from(MODULES), max_size=1)) if draw(st.integers(0, 2)) == 0 else []
    # the directed families know which module's lines matter for them: switch at every line of it, half of the time
    home = {9100: "schema/validation/object.py", 9200: "schema/elements/base.py", 9220: "schema/elements/object.py", 9300: "schema/elements/items.py",
            9500: "schema/validation/numeric.py", 9501: "schema/validation/numeric.py",
            9000: "schema/validation/format.py", 9001: "schema/validation/format.py"}.get(recipe.get("id"))
    if home and draw(st.booleans()):
        dense = [home]
    return {"recipe": recipe, "threads": threads, "schedule": [list(x) for x in schedule],
            "focus": [list(x) for x in focus], "dense": dense}


def observe_call(element, value):
    got = observe.verdict(element, value)
    return (got[0], canon(observe.plain(got[1])) if got[0] == "ok" else (got[1] if len(got) > 1 else None))


def compare(expected, got, label):
    fails = []
    for t, (exp_t, got_t) in enumerate(zip(expected, got)):
        for i, (e, g) in enumerate(zip(exp_t, got_t or [])):
            if e[0] != g[0]:
                fails.append({"sub": label, "kind": f"verdict-differs-under-concurrency:{e[0]}-vs-{g[0]}",
                              "thread": t, "call": i})
            elif e[0] == "ok" and e[1] != g[1]:
                fails.append({"sub": label, "kind": "result-differs-under-concurrency", "thread": t, "call": i,
                              "detail": [e[1][:200], g[1][:200]]})
            elif e[0] == "crash" and e != g:
                fails.append({"sub": label, "kind": "crash-differs-under-concurrency", "thread": t, "call": i})
        if got_t is None or len(got_t) != len(exp_t):
            fails.append({"sub": label, "kind": "thread-did-not-complete", "thread": t})
    return fails


def predicate(case, stats):
    element = R.build(case["recipe"])
    snap0 = observe.snapshot(element)
    expected = [[observe_call(element, v) for v in values] for values in case["threads"]]
    fails = []
    if observe.snapshot(element) != snap0:
        # purity is C08's subject; without it the sequential baseline is meaningless
        stats.inconclusive["tree-changed-by-sequential-run"] += 1
    sched = Scheduler(case["schedule"], focus=case.get("focus", ()), dense=case.get("dense", ()))
    fns = [(lambda vs=values: [observe_call(element, v) for v in vs]) for values in case["threads"]]
    try:
        got = sched.run(fns)
    except RuntimeError as exc:
        return [{"sub": "owned", "kind": "deadlock-or-thread-error", "detail": str(exc)[:200]}]
    fails += compare(expected, got, "owned-schedule")
    snap1 = observe.snapshot(element)
    if snap1 != snap0:
        fails.append({"sub": "owned-schedule", "kind": "tree-changed:" + "+".join(observe.snapshot_diff(snap0, snap1))})
    # the same schedule against a FRESH tree: first-ever calls race with each other (lazy initialisation)
    fresh = R.build(case["recipe"])
    snap_fresh = observe.snapshot(fresh)
    sched2 = Scheduler(case["schedule"], focus=case.get("focus", ()), dense=case.get("dense", ()))
    fns2 = [(lambda vs=values: [observe_call(fresh, v) for v in vs]) for values in case["threads"]]
    try:
        got2 = sched2.run(fns2)
    except RuntimeError as exc:
        return fails + [{"sub": "owned-fresh", "kind": "deadlock-or-thread-error", "detail": str(exc)[:200]}]
    fails += compare(expected, got2, "owned-schedule-fresh-tree")
    snap2 = observe.snapshot(fresh)
    if snap2 != snap_fresh:
        fails.append({"sub": "owned-schedule-fresh-tree",
                      "kind": "tree-changed:" + "+".join(observe.snapshot_diff(snap_fresh, snap2))})
    structured = R.has_props(case["recipe"]) or any(
        isinstance(n.get("sub", {}).get("items"), list) for n in R.index(case["recipe"]).values())
    n_rej = sum(1 for t in expected for e in t if e[0] == "reject")
    n_ok = sum(1 for t in expected for e in t if e[0] == "ok")
    stats.case(canon(case), sched.switches >= 3 and structured,
               ["threads:%d" % len(case["threads"]), "switches:%s" % ("0" if not sched.switches else "1-2" if sched.switches < 3 else "3-9" if sched.switches < 10 else "10+")]
               + (["both-verdicts"] if n_ok and n_rej else []),
               n=sum(len(t) for t in case["threads"]),
               sample={"recipe": case["recipe"], "schedule": case["schedule"], "switch_points": sched.points,
                       "switches_taken": sched.switches})
    stats.extra["switch_points"] = stats.extra.get("switch_points", 0) + sched.points
    stats.extra["switches_taken"] = stats.extra.get("switches_taken", 0) + sched.switches
    return fails


replay_predicate = predicate


def stress(ctx, stats):
    """Free-running threads with a tiny switch interval (supplementary, thorough tier)."""
    from hypothesis import HealthCheck, Phase, given, seed, settings

    found = {}

    @seed(ctx.derived(99))
    @settings(max_examples=12, database=None, deadline=None, suppress_health_check=list(HealthCheck),
              phases=[Phase.generate])
    @given(cases())
    def run(case):
        if found:
            return
        element = R.build(case["recipe"])
        snap0 = observe.snapshot(element)
        values = [v for t in case["threads"] for v in t]
        expected = [observe_call(element, v) for v in values]
        results = [None] * 8
        old = sys.getswitchinterval()
        sys.setswitchinterval(1e-6)
        try:
            def body(k):
                out = []
                for r in range(150 // max(1, len(values)) + 1):
                    for i, v in enumerate(values):
                        out.append((i, observe_call(element, v)))
                results[k] = out
            ts = [threading.Thread(target=body, args=(k,)) for k in range(8)]
            for t in ts:
                t.start()
            for t in ts:
                t.join()
        finally:
            sys.setswitchinterval(old)
        stats.extra["stress_calls"] = stats.extra.get("stress_calls", 0) + sum(len(r or []) for r in results)
        for out in results:
            for i, g in out or []:
                if g != expected[i]:
                    found["f"] = {"case": case, "failures": [{"sub": "stress", "kind": "free-running-mismatch",
                                                               "call": i, "detail": [str(expected[i])[:200], str(g)[:200]]}]}
                    return
        if observe.snapshot(element) != snap0:
            found["f"] = {"case": case, "failures": [{"sub": "stress", "kind": "tree-changed-under-stress"}]}

    run()
    return found.get("f")


def run_shard(ctx, stats):
    failure = runner.hyp_run(ctx, stats, cases(), predicate, BUDGET[ctx.tier])
    if failure or ctx.quick:
        return failure
    return stress(ctx, stats)
