"""C20 - unsupported schema features are refused, never silently mis-modelled."""
import copy

from hypothesis import strategies as st

from vlib import docs, observe, runner
from vlib import schemas as sg
from vlib.jsonvals import canon

from statham.schema.exceptions import FeatureNotImplementedError, SchemaParseError
from statham.schema.parser import parse, parse_element

PID = "C20"
RULE = (
    "sub-check A: supported schema from the Draft-6 grammar x ONE of its schema positions "
    "(enumerated by vlib.schemas.walk: root, each properties/patternProperties value, "
    "additionalProperties, propertyNames, schema-form dependencies, items single and each tuple "
    "member, additionalItems, contains, each anyOf/oneOf/allOf branch, not; and root definitions "
    "entries through parse()) x ONE unsupported keyword (if, then, else, $defs, unevaluatedItems, "
    "unevaluatedProperties) with a schema-shaped value: parsing must raise "
    "FeatureNotImplementedError and the same schema without the keyword must parse. sub-check B: "
    "cyclic documents (self reference, mutual, cycles of length 3-8, back edge in any interpreted "
    "position, every node a real object/array schema) through statham.__main__.main: must raise "
    "FeatureNotImplementedError. sub-check C: the same injection into the root file of a multi-file "
    "document (root tree or its definitions, never next to a $ref), through main(): refused with the "
    "keyword, generated without it. non-trivial = injection depth >=1 or cycle length >=2; distinct = "
    "canon(case)"
)
RULE += (
    ' Reference cycles may also close inside a literal keyword (default / const / enum): the loader resolves $ref wherever it stands.'
)
ASSUMPTIONS = [
    "position enumerator vlib.schemas.walk mirrors the positions statham interprets as schemas (literals are not positions)",
    "pure-alias $ref loops are not generated (json_ref_dict rejects them itself)",
]
BUDGET = {"quick": 550, "thorough": 5000}
UNSUPPORTED = ["if", "then", "else", "$defs", "unevaluatedItems", "unevaluatedProperties"]
WRAPPERS = ["properties", "items", "tuple", "additionalItems", "contains", "patternProperties",
            "additionalProperties", "propertyNames", "dependencies", "anyOf", "oneOf", "allOf", "not"]


def positions(schema):
    out = []
    sg.walk(schema, lambda s, p: out.append(p) if isinstance(s, dict) else None)
    return out


def get_at(schema, path):
    node = schema
    for part in path:
        node = node[part]
    return node


@st.composite
def injections(draw):
    schema = draw(sg.schemas(sg.Cfg(depth=3, unique_titles=True)))
    if not isinstance(schema, dict):
        schema = {"items": schema}
    use_definitions = draw(st.integers(0, 5)) == 0
    if use_definitions:
        schema = {"type": "object", "title": "Root", "definitions": {"d": schema}}
    pos = positions(schema)
    if use_definitions:
        pos = [p for p in pos if p[:1] == ("definitions",)]
    deep = [p for p in pos if len(p) > (2 if use_definitions else 0)]
    if deep and draw(st.integers(0, 6)) > 0:
        pos = deep  # prefer nested positions; the root is the easy case
    path = list(draw(st.sampled_from(pos)))
    if not use_definitions and draw(st.integers(0, 5)) == 0:
        # the carrier sits under a property whose Python name collides with a LATER sibling's: the parser
        # keeps only one of them as a property, but must still have looked at both schemas
        first, second = draw(st.sampled_from([("a-b", "a_b"), ("a b", "a-b"), ("class", "class_"), ("1x", "_1x")]))
        schema = {"type": "object", "title": "Outer", "properties": {first: schema, second: {"type": "string"}}}
        path = ["properties", first] + path
    if not use_definitions and draw(st.integers(0, 7)) == 0:
        # carriers that a parser might treat as shorthand for something simpler (a dependency schema that only lists
        # required names, a one-member composition, an items schema that is `true`-like) - the unsupported keyword
        # sits right next to the only other keyword
        carrier = draw(st.sampled_from([{"required": ["billing"]}, {"required": ["a", "b"], "title": "needs both"},
                                        {"type": "string"}, {"description": "only an annotation"}, {}]))
        where = draw(st.sampled_from(["dependencies", "dependencies", "additionalProperties", "items", "propertyNames"]))
        schema = {"dependencies": {"card": carrier}} if where == "dependencies" else {where: carrier}
        if draw(st.booleans()):
            schema = {"type": "object", "title": "Order", **schema} if where != "items" else {"type": "array", **schema}
        path = [where, "card"] if where == "dependencies" else [where]
    kw = draw(st.sampled_from(UNSUPPORTED))
    if kw == "$defs":
        value = {"x": draw(st.sampled_from([{}, {"type": "string"}, True]))}
    else:
        value = draw(st.sampled_from([{}, {"type": "string"}, True, False, {"minimum": 1}]))
    if draw(st.integers(0, 3)) == 0 and isinstance(schema, dict):
        # the dialect annotation of a document says nothing about what statham supports
        schema = dict(schema)
        schema["$schema"] = draw(st.sampled_from(["http://json-schema.org/draft-06/schema#",
                                                   "http://json-schema.org/draft-04/schema#",
                                                   "http://json-schema.org/draft-07/schema#",
                                                   "https://json-schema.org/draft/2019-09/schema",
                                                   "http://json-schema.org/schema#"]))
    return {"mode": "inject", "schema": schema, "path": path, "keyword": kw, "value": value,
            "via_parse": use_definitions}


def wrap(kind, inner):
    """Place ``inner`` (a schema) at position ``kind`` of a fresh non-object wrapper."""
    if kind == "properties":
        return {"properties": {"w": inner}}
    if kind == "items":
        return {"items": inner}
    if kind == "tuple":
        return {"items": [{"type": "string"}, inner]}
    if kind == "additionalItems":
        return {"items": [{}], "additionalItems": inner}
    if kind == "contains":
        return {"contains": inner}
    if kind == "patternProperties":
        return {"patternProperties": {"^a": inner}}
    if kind == "additionalProperties":
        return {"additionalProperties": inner}
    if kind == "propertyNames":
        return {"propertyNames": inner}
    if kind == "dependencies":
        return {"dependencies": {"a": inner}}
    if kind in ("anyOf", "oneOf", "allOf"):
        return {kind: [{"type": "string"}, inner]}
    if kind == "not":
        return {"not": inner}
    # the loader resolves references wherever they stand, also inside literal keywords: a cycle closed there is
    # still a recursive document
    if kind == "default-literal":
        return {"default": {"self": inner}}
    if kind == "const-literal":
        return {"const": [inner]}
    if kind == "enum-literal":
        return {"enum": [1, {"x": [inner]}]}
    raise ValueError(kind)


LITERAL_WRAPPERS = ["default-literal", "const-literal", "enum-literal"]


@st.composite
def cycles(draw):
    n = draw(st.integers(1, 8))
    defs = {}
    for i in range(n):
        target = f"#/definitions/n{(i + 1) % n}"
        edge = {"$ref": target}
        if draw(st.integers(0, 5)) == 0:
            edge = wrap(draw(st.sampled_from(LITERAL_WRAPPERS)), edge)
        for kind in draw(st.lists(st.sampled_from(WRAPPERS), min_size=0, max_size=2)):
            edge = wrap(kind, edge)
        node = {"type": "object", "properties": {"next": edge, "v": {"type": "integer"}}}
        if draw(st.booleans()):
            node["title"] = f"Node{i}"
        if n >= 2 and draw(st.integers(0, 5)) == 0:
            # (a reference to ITSELF is refused by the loader as unresolvable - "is self-referential" - before
            # statham sees anything; that is not a recursive schema but a broken reference)
            # a node that is nothing but the reference (a loop of such nodes never reaches the parser: resolving the
            # references itself does not terminate)
            node = {"$ref": target}
        defs[f"n{i}"] = node
    style = draw(st.sampled_from(["root-refs", "root-is-node", "self"]))
    if style == "self" or (style == "root-is-node" and n == 1):
        edge = {"$ref": "#"}
        if draw(st.integers(0, 3)) == 0:
            edge = wrap(draw(st.sampled_from(LITERAL_WRAPPERS)), edge)
        for kind in draw(st.lists(st.sampled_from(WRAPPERS), min_size=0, max_size=2)):
            edge = wrap(kind, edge)
        doc = {"type": "object", "title": "Root", "properties": {"me": edge}}
        n = 1
    elif style == "root-is-node":
        doc = {"type": "object", "title": "Root", "properties": {"first": {"$ref": "#/definitions/n0"}},
               "definitions": defs}
    else:
        doc = {"type": "array", "items": {"$ref": "#/definitions/n0"}, "definitions": defs}
    return {"mode": "cycle", "files": {"a.json": doc}, "length": n}


@st.composite
def doc_injections(draw):
    """Unsupported keyword somewhere in the ROOT FILE of a multi-file document, through main()."""
    doc = draw(docs.documents(docs.DCfg()))
    root = doc["files"][doc["root"]]
    pos = [p for p in positions(root) if "$ref" not in get_at(root, p)]
    path = list(draw(st.sampled_from(pos)))
    kw = draw(st.sampled_from(UNSUPPORTED))
    value = {"x": {}} if kw == "$defs" else draw(st.sampled_from([{}, {"type": "string"}, True, False]))
    return {"mode": "inject-doc", "files": doc["files"], "root": doc["root"], "path": path, "keyword": kw,
            "value": value}


def check_doc_injection(case, stats):
    files = copy.deepcopy(case["files"])
    fails = []

    def run(fs):
        try:
            docs.generate_module(copy.deepcopy(fs), case["root"])
            return "generated"
        except FeatureNotImplementedError:
            return "refused"
        except SchemaParseError as exc:
            return "other-parse-error:" + type(exc).__name__
        except RecursionError:
            return "recursion"
        except Exception as exc:  # noqa: BLE001
            if observe.statham_frame(exc) == "?":
                return "dependency-error"
            return "crash:" + type(exc).__name__

    clean = run(files)
    get_at(files[case["root"]], case["path"])[case["keyword"]] = copy.deepcopy(case["value"])
    dirty = run(files)
    if "dependency-error" in (clean, dirty) or "recursion" in (clean, dirty):
        stats.inconclusive["dependency-or-recursion"] += 1
        return []
    if dirty == "generated":
        fails.append({"sub": "inject-doc", "kind": "unsupported-keyword-silently-generated",
                      "keyword": case["keyword"], "path": case["path"]})
    elif dirty != "refused":
        fails.append({"sub": "inject-doc", "kind": "wrong-error:" + dirty, "keyword": case["keyword"], "path": case["path"]})
    if clean != "generated":
        fails.append({"sub": "inject-doc", "kind": "document-without-the-part-not-generated:" + clean})
    in_defs = case["path"][:1] == ["definitions"]
    stats.case(canon([case["files"], case["path"], case["keyword"]]), len(case["path"]) >= 1,
               ["doc-injection", "doc-pos:" + ("definitions" if in_defs else "root-tree"), "kw:" + case["keyword"]],
               sample={"files": files, "path": case["path"], "keyword": case["keyword"]})
    return fails


def predicate(case, stats):
    if case["mode"] == "cycle":
        return check_cycle(case, stats)
    if case["mode"] == "inject-doc":
        return check_doc_injection(case, stats)
    schema = case["schema"]
    fails = []
    bad = copy.deepcopy(schema)
    get_at(bad, case["path"])[case["keyword"]] = copy.deepcopy(case["value"])
    runner_fn = parse if case["via_parse"] else parse_element
    # 1. with the unsupported part: must be refused with the not-implemented error
    try:
        result = runner_fn(copy.deepcopy(bad))
    except FeatureNotImplementedError:
        result = None
        outcome = "refused"
    except SchemaParseError as exc:
        outcome = "other-parse-error:" + type(exc).__name__
        result = None
    except RecursionError:
        stats.inconclusive["recursion"] += 1
        return []
    except Exception as exc:  # noqa: BLE001
        outcome = "crash:" + type(exc).__name__
        result = None
    else:
        outcome = "accepted"
    kinds = [p for p in case["path"] if isinstance(p, str) and p in sg.GROUPS["object"] | sg.GROUPS["array"]
             | sg.GROUPS["compose"] | {"definitions"}]
    classes = ["pos:" + (kinds[-1] if kinds else "root"), "kw:" + case["keyword"], "outcome:" + outcome.split(":")[0]]
    if outcome == "accepted":
        fails.append({"sub": "inject", "kind": "unsupported-keyword-silently-accepted", "keyword": case["keyword"],
                      "path": case["path"], "result": repr(result)[:300]})
    elif outcome != "refused":
        fails.append({"sub": "inject", "kind": "wrong-error:" + outcome, "keyword": case["keyword"], "path": case["path"]})
    # 2. without it: must parse
    try:
        runner_fn(copy.deepcopy(schema))
    except RecursionError:
        stats.inconclusive["recursion"] += 1
    except Exception as exc:  # noqa: BLE001
        fails.append({"sub": "strip", "kind": "schema-without-the-part-does-not-parse:" + type(exc).__name__,
                      "detail": str(exc)[:200]})
    # 3. the SAME dict object, parsed once while it was fine, then given the unsupported keyword (at its root, or at
    #    the root of its definitions entry) and parsed again: whatever the first parse left on the object must not
    #    let the second one through
    same = copy.deepcopy(schema)
    try:
        runner_fn(same)
        first_ok = True
    except Exception:  # noqa: BLE001 - judged in step 2
        first_ok = False
    target = same
    if case["via_parse"] and isinstance(same.get("definitions"), dict) and isinstance(same["definitions"].get("d"), dict):
        target = same["definitions"]["d"]
    if first_ok and isinstance(target, dict):
        target[case["keyword"]] = copy.deepcopy(case["value"])
        try:
            again = runner_fn(same)
        except FeatureNotImplementedError:
            classes.append("same-object:refused")
        except RecursionError:
            stats.inconclusive["recursion"] += 1
        except Exception as exc:  # noqa: BLE001
            fails.append({"sub": "same-object", "kind": "wrong-error-on-second-parse-of-the-same-object:" + type(exc).__name__,
                          "keyword": case["keyword"]})
        else:
            fails.append({"sub": "same-object", "kind": "unsupported-keyword-accepted-on-second-parse-of-the-same-object",
                          "keyword": case["keyword"], "result": repr(again)[:200]})
    stats.case(canon([schema, case["path"], case["keyword"]]), len(case["path"]) >= 1, classes,
               sample={"schema_with_keyword": bad, "path": case["path"], "keyword": case["keyword"]})
    return fails


def check_cycle(case, stats):
    fails = []
    try:
        text = docs.generate_module(copy.deepcopy(case["files"]), "a.json")
    except FeatureNotImplementedError:
        outcome = "refused"
    except SchemaParseError as exc:
        outcome = "other-parse-error:" + type(exc).__name__
    except RecursionError:
        outcome = "crash:RecursionError"
    except Exception as exc:  # noqa: BLE001
        if observe.statham_frame(exc) == "?":
            stats.inconclusive["dependency-error:" + type(exc).__name__] += 1
            return []
        outcome = "crash:" + type(exc).__name__
    else:
        outcome = "generated"
    if outcome == "generated":
        fails.append({"sub": "cycle", "kind": "recursive-document-silently-generated", "module": text[-400:]})
    elif outcome != "refused":
        fails.append({"sub": "cycle", "kind": "wrong-error:" + outcome})
    stats.case(canon(case["files"]), case["length"] >= 2, ["cycle-length:%d" % case["length"], "outcome:" + outcome.split(":")[0]],
               sample={"files": case["files"]})
    return fails


replay_predicate = predicate


def run_shard(ctx, stats):
    strat = st.one_of(injections(), injections(), injections(), cycles(), doc_injections())
    return runner.hyp_run(ctx, stats, strat, predicate, BUDGET[ctx.tier])
