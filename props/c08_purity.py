"""C08 - validation is pure: changes neither schema nor data, and is repeatable."""
import copy
import warnings

from hypothesis import strategies as st
from hypothesis.stateful import RuleBasedStateMachine, initialize, precondition, rule

from vlib import findings, observe, recipes as R, runner
from vlib.jsonvals import canon
from vlib.values_for import values_for

PID = "C08"
RULE = (
    "case = rule-based state machine history: init draws an element-tree recipe (explicit required "
    "lists next to properties, shared elements/classes, inheritance, patternProperties, compositions, "
    "defaults), then 3-20 steps of call(value aimed at the tree's schema) / repeat(earlier call); after "
    "every step: tree == untouched twin (both directions), snapshot(repr, serialize_json, "
    "serialize_python, deep attribute dump) unchanged, input value unchanged, repeated calls give the "
    "same verdict and an equal result; non-trivial = history with >=2 calls, >=1 accepted and >=1 "
    "rejected, on a tree with >=1 property; distinct = distinct canon(recipe, history)"
)
RULE += (
    ' Round 9: after every first-time value the verdict is also taken from a tree built from the same recipe that has never validated anything; dependency, format and inheritance families (base + subclass adding a requirement) joined the recipes.'
)
ASSUMPTIONS = [
    "results are compared through vlib.observe.plain (public read-back), not through ==, because twin builds have distinct classes",
    "error messages are not compared (not part of the statement)",
]
BUDGET = {"quick": (180, 12), "thorough": (1500, 25)}

observe.register_formats()


class Harness:
    """Shared by the state machine and the replay path."""

    _fresh = __import__("itertools").count()

    def __init__(self, recipe):
        self.recipe = copy.deepcopy(recipe)
        # unregistered format names are made unique per history: "the first time this process meets the name" is then
        # part of every history (what is emitted on the first call must be emitted on every repeat)
        recipe = copy.deepcopy(recipe)
        for node in R.index(recipe).values():
            if node.get("kw", {}).get("format") in ("vf-unregistered", "vf-unknown-2"):
                node["kw"]["format"] = "%s-%d-%d" % (node["kw"]["format"], __import__("os").getpid(), next(Harness._fresh))
        self.built_recipe = recipe
        self.real = R.build(recipe)
        self.twin = R.build(recipe)
        self.snap0 = observe.snapshot(self.real)
        self.calls = []  # (value, kind, plain)
        self.history = []
        self.n_ok = self.n_rej = 0

    def case(self):
        return {"recipe": self.recipe, "history": copy.deepcopy(self.history)}

    def feed_result(self, op):
        """The input is an object RETURNED by an earlier call (a pipeline: validate with one schema, hand the result
        to the next). It is 'any value' like every other: the call must leave it as it found it."""
        from statham.schema.elements import Element, Integer, Number
        from statham.schema.property import Property

        oks = [c for c in self.calls if c[1] == "ok" and isinstance(c[3], (dict, list))]
        if not oks:
            return []
        src = oks[op["index"] % len(oks)][3]
        if op.get("member") is not None and isinstance(src, (dict, list)) and len(src):
            # a nested member of the result instead
            members = [v for v in (src.values() if isinstance(src, dict) else src) if isinstance(v, (dict, list))]
            if members:
                src = members[op["member"] % len(members)]
        before = observe.plain(src)
        before_type = type(src)
        if op["target"] == "tree":
            target = self.real
        else:
            # another (anonymous) element that converts and completes what it is given
            keys = [k for k in (src if isinstance(src, dict) else {}) if isinstance(k, str)][:2]
            props = {("p%d" % i): Property(Number(), source=k) for i, k in enumerate(keys)}
            props["zz_new"] = Property(Integer(default=0))
            target = Element(properties=props, items=Number())
            if op["target"] == "allof":
                from statham.schema.elements import AllOf
                target = AllOf(target, Element(additionalProperties=False, properties={
                    ("q%d" % i): Property(Element(), source=k) for i, k in enumerate(keys)}))
        try:
            with __import__("warnings").catch_warnings():
                __import__("warnings").simplefilter("ignore")
                target(src)
        except Exception:  # noqa: BLE001 - the verdict is not the point here
            pass
        after = observe.plain(src)
        fails = []
        if type(src) is not before_type or not observe.plain_eq(before, after):
            fails.append({"sub": "input", "kind": "input-mutated(input was an earlier result)", "target": op["target"],
                          "detail": [canon(before)[:300], canon(after)[:300]]})
        return fails + self.invariants()

    def apply(self, op):
        self.history.append(copy.deepcopy(op))
        fails = []
        if op["op"] == "feed_result":
            return self.feed_result(op)
        if op["op"] == "call":
            value = op["value"]
            prior = None
        else:
            if not self.calls:
                return []
            prior = self.calls[op["index"] % len(self.calls)]
            value = prior[0]
        with warnings.catch_warnings(record=True) as caught:
            warnings.simplefilter("always")
            got = observe.verdict(self.real, value, keep_warnings=True)
        warned = sorted({str(w.category.__name__) for w in caught})
        if got[0] == "mutated-input":
            fails.append({"sub": "input", "kind": "input-mutated", "value": value, "detail": list(got)})
            return fails
        if got[0] not in ("ok", "reject"):
            # crashes are C10's subject; still a repeatability observation below
            k = got[0]
        k = got[0]
        p = observe.plain(got[1]) if k == "ok" else None
        if k == "ok":
            self.n_ok += 1
        elif k == "reject":
            self.n_rej += 1
        if prior is not None:
            if prior[1] != k:
                fails.append({"sub": "repeat", "kind": "verdict-changed-on-repeat", "value": value,
                              "detail": [prior[1], k]})
            elif len(prior) > 4 and prior[4] != warned:
                # with warnings turned into errors (-W error) this IS a different verdict
                fails.append({"sub": "repeat", "kind": "warnings-changed-on-repeat", "value": value,
                              "detail": [prior[4], warned]})
            elif k == "ok" and not (observe.plain_eq(prior[2], p) and self._py_equal(prior[3], got[1])):
                # "an equal result": Python equality of the two returned objects (a model instance is
                # not equal to an untyped dict, nor to an instance of another class) and equal read-back
                fails.append({"sub": "repeat", "kind": "result-changed-on-repeat", "value": value,
                              "detail": [canon(prior[2]), canon(p), type(prior[3]).__name__, type(got[1]).__name__]})
        else:
            self.calls.append((copy.deepcopy(value), k, p, got[1] if k == "ok" else None, warned))
        # ... and like a tree that has never validated anything (same verdict; what a class remembers from validating
        # one value - or from its BASE class validating one - must not reach the next)
        if prior is None:
            fresh = observe.verdict(R.build(self.built_recipe), value)
            if fresh[0] != k and fresh[0] in ("ok", "reject") and k in ("ok", "reject"):
                fails.append({"sub": "fresh", "kind": f"used-tree-{k}-but-unused-copy-{fresh[0]}", "value": value})
        fails.extend(self.invariants(value))
        return fails

    @staticmethod
    def _py_equal(a, b):
        try:
            return bool(a == b) and bool(b == a)
        except Exception:  # noqa: BLE001
            return False

    def invariants(self, value=None):
        fails = []
        try:
            eq1 = self.real == self.twin
            eq2 = self.twin == self.real
        except Exception as exc:  # noqa: BLE001
            eq1 = eq2 = f"raised {type(exc).__name__}"
        if eq1 is not True or eq2 is not True:
            fails.append({"sub": "tree", "kind": "tree-differs-from-fresh-copy", "value": value,
                          "detail": [str(eq1), str(eq2)]})
        snap = observe.snapshot(self.real)
        diff = observe.snapshot_diff(self.snap0, snap)
        if diff:
            fails.append({"sub": "tree", "kind": "tree-changed:" + "+".join(diff), "value": value,
                          "detail": {k: [str(self.snap0[k])[:300], str(snap[k])[:300]] for k in diff}})
        return fails


def values_strategy(schema):
    return st.one_of(values_for(schema, 1, 1).map(lambda vs: vs[0]), values_for(schema, 1, 1).map(lambda vs: vs[0]),
                     st.sampled_from(OVERLAP_VALUES), st.sampled_from(DEP_VALUES), st.sampled_from(FORMAT_VALUES),
                     st.sampled_from(INHERITANCE_VALUES))


@st.composite
def overlapping_anyof(draw):
    """anyOf whose alternatives accept common values but build them differently, plus values that only the
    later alternative accepts (so that "which branch built the previous value" could leak into the next)."""
    first = draw(st.sampled_from([
        {"id": 2, "kind": "Object", "kw": {}, "name": "Box", "props": [
            {"name": "size", "source": None, "required": False, "element": {"id": 3, "kind": "Integer", "kw": {"default": 1}}},
            {"name": "kind", "source": None, "required": False, "element": {"id": 4, "kind": "String", "kw": {}}}]},
        {"id": 2, "kind": "Integer", "kw": {}},
        {"id": 2, "kind": "Array", "kw": {}, "sub": {"items": {"id": 3, "kind": "Number", "kw": {}}}},
    ]))
    second = draw(st.sampled_from([
        {"id": 5, "kind": "Object", "kw": {}, "name": "Shape", "props": [
            {"name": "colour", "source": None, "required": False, "element": {"id": 6, "kind": "String", "kw": {"default": "red"}}},
            {"name": "kind", "source": None, "required": False, "element": {"id": 7, "kind": "Element", "kw": {}}}]},
        {"id": 5, "kind": "Element", "kw": {}},
        {"id": 5, "kind": "Number", "kw": {}},
        {"id": 5, "kind": "Array", "kw": {}, "sub": {"items": {"id": 6, "kind": "Element", "kw": {}}}},
    ]))
    kind = draw(st.sampled_from(["AnyOf", "AnyOf", "OneOf"]))
    node = {"id": 1, "kind": kind, "kw": {}, "elements": [first, second]}
    if draw(st.integers(0, 2)) == 0:
        node = {"id": 9, "kind": "Element", "kw": {}, "props": [
            {"name": "p", "source": None, "required": False, "element": node}]}
    return node


@st.composite
def dependency_recipes(draw):
    """Several array-form dependencies on one element (class-level helper lists that a call might extend), with
    values that trigger none, one, or several of them at once."""
    keys = draw(st.lists(st.sampled_from(["a", "b", "c", "d"]), min_size=2, max_size=3, unique=True))
    node = {"id": 1, "kind": draw(st.sampled_from(["Element", "Object"])), "kw": {},
            "sub": {"dependencies": {k: draw(st.lists(st.sampled_from(["a", "b", "c", "d", "e"]), min_size=1, max_size=2,
                                                      unique=True)) for k in keys}}}
    if draw(st.booleans()):
        node["kw"]["required"] = draw(st.lists(st.sampled_from(["a", "e"]), max_size=1))
    if node["kind"] == "Object":
        node["name"] = "Dep"
        node["props"] = []
    if draw(st.integers(0, 2)) == 0:
        node = {"id": 9, "kind": "Array", "kw": {}, "sub": {"items": node}}
    return node


@st.composite
def format_recipes(draw):
    """Elements whose `format` nobody has registered (every string that reaches them produces a warning - on the
    first call and on every repeat alike)."""
    leaf = {"id": 2, "kind": draw(st.sampled_from(["String", "Element"])),
            "kw": {"format": draw(st.sampled_from(["vf-unregistered", "vf-unknown-2"]))}}
    shape = draw(st.integers(0, 2))
    if shape == 0:
        return dict(leaf, id=1)
    if shape == 1:
        return {"id": 1, "kind": "Array", "kw": {}, "sub": {"items": leaf}}
    return {"id": 1, "kind": "Element", "kw": {}, "props": [
        {"name": "s", "source": None, "required": False, "element": leaf}]}


INHERITANCE_VALUES = [{"base": {"a": "x"}}, {"base": {"a-b": "x"}}, {"child": {"a": "x"}}, {"child": {"a-b": "x", "b": 1}},
                      {"child": {"a": "x", "b": 2, "zz": 1}}, {"base": {"a": "x"}, "child": {"a": "x"}},
                      {"many": [{"a": "x"}, {"a": "x", "b": 1}]}, {"child": {}}]
FORMAT_VALUES = ["abc", "", "x", ["abc"], ["a", "b"], {"s": "abc"}, {"s": 5}, 5, {"s": ""}]
DEP_VALUES = [{"a": 1}, {"b": 1}, {"a": 1, "b": 2}, {"a": 1, "b": 2, "c": 3, "d": 4, "e": 5}, {"c": 1, "d": 2},
              {"a": 1, "e": 1}, {"d": 1}, {}, [{"a": 1, "b": 2}], [{"a": 1, "b": 2, "c": 3, "d": 4, "e": 5}, {"a": 1}]]
OVERLAP_VALUES = [{"kind": "box"}, {"kind": 5}, {"size": 2, "kind": "x"}, {"colour": "blue"}, 1, 1.5, 2, [1, 2],
                  [1, "a"], {}, "s", {"size": "big"}, {"p": {"kind": "box"}}, {"p": {"kind": 5}}, {"p": 1},
                  {"p": 1.5}, {"p": [1]}, {"p": ["a"]}]


class Machine(RuleBasedStateMachine):
    _sink = None
    _stats = None

    def __init__(self):
        super().__init__()
        self.h = None

    @initialize(recipe=st.one_of(R.recipes(R.RCfg(depth=3)), R.recipes(R.RCfg(depth=3)), R.recipes(R.RCfg(depth=3)),
                                 overlapping_anyof(), dependency_recipes(), format_recipes(),
                                 R.inheritance_family().map(lambda rv: rv[0])))
    def init(self, recipe):
        self.h = Harness(recipe)
        self.schema = R.to_schema(recipe)

    def _do(self, op):
        if runner.shrink_budget_exceeded(self._sink):
            return
        finished, fails = runner.time_limited(lambda: self.h.apply(op), self._stats, "step")
        if not finished:
            return
        unknown = runner.triage(PID, self.h.case(), fails, self._stats)
        if unknown:
            runner.record_violation(self._sink, self.h.case(), unknown)
            raise runner.Violation(self.h.case(), unknown)

    @rule(data=st.data())
    def call(self, data):
        self._do({"op": "call", "value": data.draw(values_strategy(self.schema))})
        if self.h is not None and len(self.h.calls) > 1 and data.draw(st.booleans()):
            # ... and an earlier value again: state left behind by the call in between must not matter
            self._do({"op": "repeat", "index": data.draw(st.integers(0, len(self.h.calls) - 2))})

    @precondition(lambda self: self.h is not None and self.h.calls)
    @rule(index=st.integers(0, 30))
    def repeat(self, index):
        self._do({"op": "repeat", "index": index})

    @precondition(lambda self: self.h is not None and any(c[1] == "ok" and isinstance(c[3], (dict, list))
                                                          for c in self.h.calls))
    @rule(index=st.integers(0, 30), where=st.sampled_from(["other", "other", "allof", "tree"]),
          member=st.one_of(st.none(), st.integers(0, 5)))
    def feed_result(self, index, where, member):
        self._do({"op": "feed_result", "index": index, "target": where, "member": member})

    def teardown(self):
        if self.h is None or self._stats is None:
            return
        h = self.h
        nontrivial = len(h.calls) >= 2 and h.n_ok >= 1 and h.n_rej >= 1 and R.has_props(h.recipe)
        classes = []
        idx = R.index(h.recipe)
        if any("required" in n.get("kw", {}) and n.get("props") for n in idx.values()):
            classes.append("explicit-required+props")
        if any(n.get("base") for n in idx.values()):
            classes.append("inheritance")
        if R.has_props(h.recipe):
            classes.append("has-properties")
        classes.append("steps:%d" % min(len(h.history), 25))
        self._stats.case(canon(h.case()), nontrivial, classes, n=max(1, len(h.history)),
                         sample=h.case())


def replay_predicate(case, stats):
    h = Harness(case["recipe"])
    fails = h.invariants()
    for op in case["history"]:
        fails.extend(h.apply(op))
    stats.case(canon(case), True, ["replay"], n=max(1, len(case["history"])))
    return fails


def run_shard(ctx, stats):
    n, steps = BUDGET[ctx.tier]
    return runner.machine_run(ctx, stats, Machine, n, steps)
