"""C01 - validation verdicts match JSON Schema Draft 6."""
import copy
import itertools

from hypothesis import strategies as st

from vlib import findings, observe, ref6, runner
from vlib import schemas as sg
from vlib.jsonvals import canon
from vlib.values_for import values_for

PID = "C01"
RULE = (
    "case = (schema from the Draft-6 grammar vlib/schemas.py, 3-6 schema-directed values); "
    "one evaluation per (schema, value); non-trivial = ref6 finds >=1 applicable keyword "
    "other than type at the root; distinct = distinct (canon(schema), canon(value))"
)
ASSUMPTIONS = [
    "oracle = vlib/ref6.py (own Draft-6 reading), self-checked per case against jsonschema.Draft6Validator",
    "numbers: |int|<2^31 and dyadic floats (exact IEEE arithmetic), plus integers up to 2^64 when no float multipleOf is involved (integer arithmetic is exact); other extremes belong to C10",
    "regex patterns from a pool on which ECMA-262 and Python re agree",
    "property-name pool has pairwise distinct Python images (collisions belong to C12)",
    "required-with-default waiver is three-valued ('either'): both accept and reject are tolerated",
]
BUDGET = {"quick": 480, "thorough": 4500}

try:
    import jsonschema

    _HAVE_JS = True
except Exception:  # noqa: BLE001
    _HAVE_JS = False

observe.register_formats()
_PURE = ref6.Opts(int_is_int=False, formats={}, waiver=False)
_DEV = ref6.Opts(int_is_int=True, formats=sg.FORMAT_PREDICATES, waiver=True)


def cfg(ctx=None):
    return sg.Cfg(
        depth=3 if (ctx is None or ctx.quick) else 4,
    )


BIG_INTS = [2 ** 53 + 1, 9007199254740993, 7 * 10 ** 16 + 1, 2 ** 64, 3 * 2 ** 60, -(2 ** 53) - 1, 10 ** 18 + 3,
            6 * 10 ** 17, 2 ** 53, 35 * 2 ** 50 + 7]


def _float_multiple(schema):
    found = []
    sg.walk(schema, lambda s, p: found.append(1) if isinstance(s, dict) and isinstance(s.get("multipleOf"), float) else None)
    return bool(found)


@st.composite
def cases(draw, c):
    schema = draw(sg.schemas(c))
    values = draw(values_for(schema))
    if isinstance(schema, dict) and not _float_multiple(schema) and draw(st.integers(0, 3)) == 0:
        # integers beyond 2**53: exact for every implementation that does integer arithmetic on integer
        # operands (ref6 uses Fractions); never combined with a float multipleOf
        big = draw(st.lists(st.sampled_from(BIG_INTS), min_size=1, max_size=2))
        if isinstance(schema.get("multipleOf"), int) and not isinstance(schema.get("multipleOf"), bool):
            m = schema["multipleOf"]
            big += [m * draw(st.sampled_from(BIG_INTS)), m * draw(st.sampled_from(BIG_INTS)) + 1]
        values = values + big + [[b] for b in big[:1]] + [{"a": big[0]}]
    return {"schema": schema, "values": values}


def self_check(schema, value):
    if not _HAVE_JS:
        return
    mine = ref6.validate(schema, value, _PURE)
    try:
        theirs = jsonschema.Draft6Validator(schema).is_valid(value)
    except Exception:  # noqa: BLE001 - e.g. jsonschema's own crash on items:false + additionalItems
        return "skipped"
    if mine != theirs:
        raise runner.HarnessError(
            f"oracle self-check: ref6={mine} jsonschema={theirs} schema={canon(schema)} value={canon(value)}"
        )


def predicate(case, stats):
    schema, values = case["schema"], case["values"]
    fails = []
    parsed = observe.safe_parse(schema)
    if parsed[0] != "ok":
        stats.case(canon(schema), False, ["parse:" + parsed[0]])
        return [{"sub": "parse", "kind": "parse-refused:" + parsed[1], "detail": list(parsed)}]
    element = parsed[1]
    pairs = set()
    if isinstance(schema, dict):
        sg.walk(schema, lambda s, p: pairs.update(
            "pair:" + "+".join(pr) for pr in itertools.combinations(sorted(sg.groups_in(s)), 2)
        ))
    for value in values:
        if self_check(schema, value) == "skipped":
            stats.classes["selfcheck-skipped(jsonschema crashed)"] += 1
        trace = ref6.Trace()
        expected = ref6.validate(copy.deepcopy(schema), copy.deepcopy(value), _DEV, trace)
        got = observe.verdict(element, value)
        nontrivial = bool(trace.applicable - {"type"})
        classes = ["expect:" + {True: "valid", False: "invalid", None: "either"}[expected]]
        classes += ["decisive:" + k for k in trace.decisive]
        if got[0] == "reject" and got[1] == "TypeError":
            classes.append("rejected-by-TypeError")
        stats.case(
            canon([schema, value]), nontrivial, classes,
            sample={"schema": schema, "value": value, "draft6": expected, "statham": got[0]},
        )
        if got[0] not in ("ok", "reject"):
            fails.append({"sub": "call", "kind": "crash:" + str(got[1] if len(got) > 1 else got[0]),
                          "value": value, "detail": list(map(str, got))})
        elif expected is True and got[0] != "ok":
            fails.append({"sub": "call", "kind": "rejects-valid", "value": value,
                          "failed_keywords": sorted(trace.failed), "detail": list(map(str, got))})
        elif expected is False and got[0] != "reject":
            fails.append({"sub": "call", "kind": "accepts-invalid", "value": value,
                          "failed_keywords": sorted(trace.failed)})
    for p in pairs:
        stats.classes[p] += 1
    return fails


replay_predicate = predicate


def run_shard(ctx, stats):
    return runner.hyp_run(ctx, stats, cases(cfg(ctx)), predicate, BUDGET[ctx.tier])


