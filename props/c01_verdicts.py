"""C01 - validation verdicts match JSON Schema Draft 6."""
import copy
import sys
import itertools

from hypothesis import strategies as st

from vlib import findings, observe, ref6, runner
from vlib import schemas as sg
from vlib.jsonvals import canon
from vlib.values_for import values_for

PID = "C01"
RULE = (
    "case = (schema from the Draft-6 grammar vlib/schemas.py, 3-6 schema-directed values); "
    "one evaluation per (schema, value); non-trivial = ref6 finds >=1 applicable keyword "
    "other than type at the root; distinct = distinct (canon(schema), canon(value))"
)
RULE += (
    ' A quarter of the schemas are parsed through the documented loader (materialize + title_labeller) instead of parse_element; about one case in sixteen adds a format name that is registered only AFTER the first round of calls (same element and a newly parsed one are judged again, now with the format in the oracle).'
)
ASSUMPTIONS = [
    "oracle = vlib/ref6.py (own Draft-6 reading), self-checked per case against jsonschema.Draft6Validator",
    "numbers: |int|<2^31 and dyadic floats (exact IEEE arithmetic), plus integers up to 2^64 (and a few exactly representable floats up to 2^70); every multipleOf is an integer or a dyadic float, so 'is a multiple' has one answer whatever the arithmetic; other extremes belong to C10",
    "jsonschema self-check is skipped for (float multipleOf, |number| >= 2^50 or 0 < |number| < 1e-300): jsonschema divides in floating point there (rounding, underflow)",
    "regex patterns from a pool on which ECMA-262 and Python re agree",
    "property-name pool has pairwise distinct Python images (collisions belong to C12)",
    "required-with-default waiver is three-valued ('either'): both accept and reject are tolerated",
]
BUDGET = {"quick": 480, "thorough": 4500}

try:
    import jsonschema

    _HAVE_JS = True
except Exception:  # noqa: BLE001
    _HAVE_JS = False

observe.register_formats()
_PURE = ref6.Opts(int_is_int=False, formats={}, waiver=False)
_DEV = ref6.Opts(int_is_int=True, formats=sg.FORMAT_PREDICATES, waiver=True, regex="ecma")
_DEV_PYRE = ref6.Opts(int_is_int=True, formats=sg.FORMAT_PREDICATES, waiver=True, regex="python")


def cfg(ctx=None):
    return sg.Cfg(
        depth=3 if (ctx is None or ctx.quick) else 4,
    )


BIG_INTS = [2 ** 53 + 1, 9007199254740993, 7 * 10 ** 16 + 1, 2 ** 64, 3 * 2 ** 60, -(2 ** 53) - 1, 10 ** 18 + 3,
            6 * 10 ** 17, 2 ** 53, 35 * 2 ** 50 + 7]


# strings on which ECMA 262 and Python `re` read the pooled patterns differently
DIALECT_STRINGS = ["b\n", "\n", "a\r", "12\n", "ab\n", "a\u2028", "foo\n", "\r\n"]
BIG_FLOATS = [float(2 ** 60), float(3 * 2 ** 60), float(2 ** 53 + 2), float(2 ** 70), 1.5 * 2 ** 60, 5e-324, 1e-320,
              2.0 ** -1074 * 6]


def _float_multiple(schema):
    found = []
    sg.walk(schema, lambda s, p: found.append(s["multipleOf"])
            if isinstance(s, dict) and isinstance(s.get("multipleOf"), float) else None)
    return found


def _has_big(value):
    if isinstance(value, bool):
        return False
    if isinstance(value, (int, float)):
        return abs(value) >= 2 ** 50 or 0 < abs(value) < 1e-300
    if isinstance(value, list):
        return any(_has_big(v) for v in value)
    if isinstance(value, dict):
        return any(_has_big(v) for v in value.values())
    return False


@st.composite
def cases(draw, c):
    schema = draw(sg.schemas(c))
    values = draw(values_for(schema))
    if isinstance(schema, dict) and not _float_multiple(schema) and draw(st.integers(0, 3)) == 0:
        # integers beyond 2**53: exact for every implementation that does integer arithmetic on integer
        # operands (ref6 uses Fractions); never combined with a float multipleOf
        big = draw(st.lists(st.sampled_from(BIG_INTS), min_size=1, max_size=2))
        if isinstance(schema.get("multipleOf"), int) and not isinstance(schema.get("multipleOf"), bool):
            m = schema["multipleOf"]
            big += [m * draw(st.sampled_from(BIG_INTS)), m * draw(st.sampled_from(BIG_INTS)) + 1]
        values = values + big + [[b] for b in big[:1]] + [{"a": big[0]}]
    elif isinstance(schema, dict) and _float_multiple(schema) and draw(st.integers(0, 2)) == 0:
        # numbers beyond 2**53 against a dyadic float multipleOf: the answer is exact mathematics, float division
        # is not (2**53 + 1 is not a multiple of 2.0)
        big = draw(st.lists(st.sampled_from(BIG_INTS + BIG_FLOATS), min_size=1, max_size=2))
        for m in _float_multiple(schema)[:2]:
            k = draw(st.sampled_from(BIG_INTS))
            if m.is_integer():
                big += [int(m) * k, int(m) * k + 1]
            else:
                big += [k, int(m * 4) * k]
        values = values + big + [[b] for b in big[:1]] + [{"a": big[0]}]
    if not findings.is_open(PID, "regex-dialect") and isinstance(schema, dict) and "attern" in canon(schema):
        # (while the finding is open these strings are excluded by construction: every one of them would hit it)
        values = values + draw(st.lists(st.sampled_from(DIALECT_STRINGS), min_size=1, max_size=3))
        values.append({draw(st.sampled_from(DIALECT_STRINGS)): 1})
    case = {"schema": schema, "values": values, "pipeline": draw(st.sampled_from(observe.PIPELINES))}
    if isinstance(schema, dict) and draw(st.integers(0, 15)) == 7:
        # "only registered string formats are checked" holds at every moment: a name nobody has registered when the
        # element is first used, registered afterwards (a fresh name per case: nothing to undo)
        name = "vf-late"  # placeholder: the predicate substitutes a name never used in its process before
        where = draw(st.sampled_from(["root", "items", "property"]))
        late = {"format": name}
        if where == "root":
            case["schema"] = {"allOf": [schema, late]}
        elif where == "items":
            case["schema"] = {"allOf": [schema, {"items": late}]}
        else:
            case["schema"] = {"allOf": [schema, {"properties": {"a": late}}]}
        case["late_format"] = name
        case["values"] = values + ["ab", "abc", "", ["ab", "abc"], {"a": "abc"}, {"a": "ab"}]
    return case


def _mixes_bool_and_number(value):
    seen = set()

    def walk(v):
        if isinstance(v, bool):
            seen.add("bool")
        elif isinstance(v, (int, float)):
            seen.add("num")
        elif isinstance(v, list):
            for x in v:
                walk(x)
        elif isinstance(v, dict):
            for x in v.values():
                walk(x)

    walk(value)
    return seen == {"bool", "num"}


def self_check(schema, value):
    if not _HAVE_JS:
        return
    if _has_big(value) and isinstance(schema, dict) and _float_multiple(schema):
        return "skipped"
    mine = ref6.validate(schema, value, _PURE)
    try:
        theirs = jsonschema.Draft6Validator(schema).is_valid(value)
    except Exception:  # noqa: BLE001 - e.g. jsonschema's own crash on items:false + additionalItems
        return "skipped"
    if mine != theirs and "uniqueItems" in canon(schema) and _mixes_bool_and_number(value):
        # jsonschema decides uniqueness by sorting and comparing neighbours; [1] and [True] sort as equal, so
        # [[1], [true], [1]] passes as unique there. ref6 compares every pair.
        return "skipped"
    if mine != theirs:
        raise runner.HarnessError(
            f"oracle self-check: ref6={mine} jsonschema={theirs} schema={canon(schema)} value={canon(value)}"
        )


_LATE = itertools.count()


def predicate(case, stats):
    schema, values = case["schema"], case["values"]
    if case.get("late_format"):
        import json
        import os

        fresh_name = "vf-late-%d-%d" % (os.getpid(), next(_LATE))
        schema = json.loads(json.dumps(schema).replace('"format": "%s"' % case["late_format"],
                                                      '"format": "%s"' % fresh_name))
        case = dict(case, schema=schema, late_format=fresh_name, key_schema=case["schema"])
    fails = []
    parsed = observe.safe_parse(schema, case.get("pipeline"))
    stats.classes["pipeline:" + case.get("pipeline", "plain")] += 1
    if parsed[0] != "ok":
        stats.case(canon(schema), False, ["parse:" + parsed[0]])
        return [{"sub": "parse", "kind": "parse-refused:" + parsed[1], "detail": list(parsed)}]
    element = parsed[1]
    pairs = set()
    if isinstance(schema, dict):
        sg.walk(schema, lambda s, p: pairs.update(
            "pair:" + "+".join(pr) for pr in itertools.combinations(sorted(sg.groups_in(s)), 2)
        ))
    rounds = [(element, _DEV, "")]
    if case.get("late_format"):
        late_pred = lambda s: len(s) % 2 == 0  # noqa: E731
        late_opts = ref6.Opts(int_is_int=True, formats={**sg.FORMAT_PREDICATES, case["late_format"]: late_pred},
                              waiver=True)
        rounds += [("register", None, None), (element, late_opts, "after-late-registration:"),
                   ("reparse", late_opts, "after-late-registration(new element):")]
        stats.classes["late-format-registration"] += 1
    for element, opts, label in rounds:
        if element == "register":
            from statham.schema.validation.format import format_checker
            format_checker.register(case["late_format"])(late_pred)
            continue
        if element == "reparse":
            again = observe.safe_parse(schema, case.get("pipeline"))
            if again[0] != "ok":
                continue
            element = again[1]
        fails += judge(element, schema, values, opts, label, stats, case.get("key_schema", schema))
    for p in pairs:
        stats.classes[p] += 1
    return fails


def judge(element, schema, values, opts, label, stats, key_schema):
    fails = []
    for value in values:
        if not label and self_check(schema, value) == "skipped":
            stats.classes["selfcheck-skipped(jsonschema crash or float multipleOf beyond 2^53)"] += 1
        trace = ref6.Trace()
        expected = ref6.validate(copy.deepcopy(schema), copy.deepcopy(value), opts, trace)
        got = observe.verdict(element, value)
        nontrivial = bool(trace.applicable - {"type"})
        classes = ["expect:" + {True: "valid", False: "invalid", None: "either"}[expected]]
        classes += ["decisive:" + k for k in trace.decisive]
        if got[0] == "reject" and got[1] == "TypeError":
            classes.append("rejected-by-TypeError")
        stats.case(
            canon([label, key_schema, value]), nontrivial, classes,
            sample={"schema": schema, "value": value, "draft6": expected, "statham": got[0]},
        )
        if got[0] not in ("ok", "reject"):
            fails.append({"sub": "call", "kind": label + "crash:" + str(got[1] if len(got) > 1 else got[0]),
                          "value": value, "detail": list(map(str, got))})
        elif expected is True and got[0] != "ok":
            fails.append({"sub": "call", "kind": label + "rejects-valid", "value": value,
                          "failed_keywords": sorted(trace.failed), "detail": list(map(str, got))})
        elif expected is False and got[0] != "reject":
            fails.append({"sub": "call", "kind": label + "accepts-invalid", "value": value,
                          "failed_keywords": sorted(trace.failed)})
    return fails


replay_predicate = predicate


@findings.classifier(PID, "regex-dialect")
def _regex_dialect(case, failure):
    """The verdict is the one Draft 6 would give IF patterns were Python `re` expressions: `$` also matches before a
    final newline, `.` matches CR / U+2028 / U+2029, `\\d \\w \\s` are Unicode-aware. Anything else stays a violation."""
    if failure.get("sub") != "call" or failure.get("kind") not in ("accepts-invalid", "rejects-valid"):
        return False
    if not set(failure.get("failed_keywords") or ["pattern"]) <= {"pattern", "patternProperties", "additionalProperties",
                                                                  "propertyNames", "properties", "items", "anyOf",
                                                                  "oneOf", "allOf", "not", "contains", "dependencies",
                                                                  "additionalItems"}:
        return False
    try:
        as_python = ref6.validate(copy.deepcopy(case["schema"]), copy.deepcopy(failure["value"]), _DEV_PYRE)
        as_ecma = ref6.validate(copy.deepcopy(case["schema"]), copy.deepcopy(failure["value"]), _DEV)
    except Exception:  # noqa: BLE001
        return False
    if as_python == as_ecma:
        return False
    statham_accepts = failure["kind"] == "accepts-invalid"
    return as_python is None or as_python is statham_accepts


PROBES = {
    "regex-dialect": [
        {"schema": {"pattern": "b$"}, "values": ["b\n", "b", "a"]},
        {"schema": {"type": "string", "pattern": "^.{2}$"}, "values": ["a\r", "ab"]},
        {"schema": {"patternProperties": {"b$": False}}, "values": [{"b\n": 1}]},
        {"schema": {"propertyNames": {"pattern": "^a$"}}, "values": [{"a\n": 1}, {"a": 1}]},
    ]
}


ATHERIS_RUNS = 10000  # per campaign; shards 0-2 of the thorough tier run one each


def atheris_strategy():
    return cases(cfg())


def run_shard(ctx, stats):
    failure = runner.hyp_run(ctx, stats, cases(cfg(ctx)), predicate, BUDGET[ctx.tier])
    if failure or ctx.quick or ctx.shard >= 3:
        return failure
    # coverage-guided: libFuzzer mutates the byte stream behind the same strategy, the Draft-6 oracle sits in the target
    return runner.atheris_campaign(ctx, stats, sys.modules[__name__], ATHERIS_RUNS)


