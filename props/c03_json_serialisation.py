"""C03 - serialize_json preserves the meaning of any element tree."""
import copy
import json

from hypothesis import strategies as st

from vlib import findings, observe, recipes as R, ref6, runner
from vlib import schemas as sg
from vlib.jsonvals import canon
from vlib.values_for import values_for

PID = "C03"
RULE = (
    "case = (element-tree recipe built through the public DSL, or a schema from the grammar parsed "
    "by parse_element) x (extra definitions: none / subtree of the tree, same object or equal copy / "
    "independent tree possibly with unreachable classes) x 4-8 schema-directed values; checks: "
    "json.dumps, Draft-6 metaschema validity, every $ref resolves inside the document, and "
    "element verdict == ref6(document) per value; non-trivial = tree has a class or a property and "
    "the values include both verdicts; distinct = distinct canon(case)"
)
RULE += (
    ' Parsed-mode schemas go through the documented loader a quarter of the time.'
)
ASSUMPTIONS = [
    "oracle for the serialised document = vlib/ref6.py with the documented deviations",
    "definition keys never name a *different* element than the reachable class of that name (ambiguous caller input)",
    "trees are acyclic; property wrappers are never shared between two owners",
]
BUDGET = {"quick": 480, "thorough": 4500}

try:
    import jsonschema
    from jsonschema import Draft6Validator

    _META = Draft6Validator.META_SCHEMA
except Exception:  # noqa: BLE001
    jsonschema = None
    _META = None

observe.register_formats()
_DEV = lambda store: ref6.Opts(int_is_int=True, formats=sg.FORMAT_PREDICATES, waiver=True, store=store)  # noqa: E731


# caller-supplied definition names are arbitrary strings: a reference to one must still resolve (JSON Pointer
# escaping inside a URI fragment)
ODD_KEYS = ["a/b", "a~b", "postal address", "50%", "a%41", "\u00e9", "~1", "x/y~z", "a+b"]


@st.composite
def cases(draw, ctx):
    depth = 3
    if draw(st.integers(0, 3)) == 0:
        schema = draw(sg.schemas(sg.Cfg(depth=3)))
        values = draw(values_for(schema, 4, 7))
        return {"mode": "parsed", "schema": schema, "values": values,
                "pipeline": draw(st.sampled_from(observe.PIPELINES))}
    if draw(st.integers(0, 9)) == 0:
        recipe, values = draw(R.inheritance_family())
        return {"mode": "dsl", "recipe": recipe, "extra_roots": [], "defs": [], "values": values}
    gen = R._Gen()
    cfg = R.RCfg(depth=depth)
    recipe = draw(R.recipes(cfg, _gen=gen))
    extra_roots = []
    has_twin = False
    if recipe.get("kind") == "Object" and draw(st.integers(0, 3)) == 0:
        # a structurally identical class under another name (equality ignores class names),
        # shareable by everything generated later
        other = R.twin(recipe, gen)
        if other is not None:
            extra_roots.append(other)
            gen.done.extend([other] * 3)
            has_twin = True
    if draw(st.integers(0, 4)) == 0 or (has_twin and draw(st.booleans())):
        extra_roots.append(draw(R.recipes(cfg, depth=2, _gen=gen)))
    defs = []
    mode = draw(st.sampled_from(["none", "none", "subtree", "subtree", "independent", "mixed"]))
    idx = R.index([recipe] + extra_roots)
    if mode in ("subtree", "mixed"):
        ids = sorted(idx)
        for _ in range(draw(st.integers(1, 2))):
            nid = draw(st.sampled_from(ids))
            node = idx[nid]
            key = node["name"] if node["kind"] == "Object" and draw(st.booleans()) else draw(
                st.sampled_from(["D1", "D2", "shared", "Votes"] + ODD_KEYS))
            defs.append({"key": key, "pick": nid, "copy": draw(st.booleans())})
    if mode in ("independent", "mixed"):
        ind = draw(R.recipes(cfg, depth=2, _gen=gen))
        defs.append({"key": draw(st.sampled_from(["X", "Y", "D1"] + ODD_KEYS)), "recipe": ind})
    schema = R.to_schema(recipe, R.index([recipe] + extra_roots + [d["recipe"] for d in defs if "recipe" in d]))
    values = draw(values_for(schema, 4, 8))
    return {"mode": "dsl", "recipe": recipe, "extra_roots": extra_roots, "defs": defs, "values": values}


def refs_of(doc, acc=None, in_literal=False):
    acc = [] if acc is None else acc
    if isinstance(doc, dict):
        for k, v in doc.items():
            if k == "$ref" and isinstance(v, str):
                acc.append(v)
            elif k in ("enum", "const", "default"):
                continue
            else:
                refs_of(v, acc)
    elif isinstance(doc, list):
        for v in doc:
            refs_of(v, acc)
    return acc


def build_case(case):
    """-> (elements, definitions or None)."""
    if case["mode"] == "parsed":
        parsed = observe.safe_parse(case["schema"], case.get("pipeline"))
        if parsed[0] != "ok":
            return None, None, parsed
        return [parsed[1]], None, None
    env = {}
    elements = [R._build(copy.deepcopy(case["recipe"]), env)]
    for extra in case.get("extra_roots", []):
        elements.append(R._build(copy.deepcopy(extra), env))
    definitions = {}
    idx = R.index([case["recipe"]] + case.get("extra_roots", []))
    names = {n["name"]: n["id"] for n in idx.values() if n["kind"] == "Object"}
    for d in case.get("defs", []):
        if "pick" in d:
            if d["copy"] and not R.classes_of(idx[d["pick"]]):
                # an independently built, equal copy of the subtree (refs resolved through env)
                obj = R._build(copy.deepcopy({k: v for k, v in idx[d["pick"]].items() if k != "id"}), dict(env))
            else:
                obj = env[d["pick"]]
        else:
            obj = R._build(copy.deepcopy(d["recipe"]), env)
        key = d["key"]
        # precondition: a key equal to a reachable class name must denote that class
        if key in names and obj is not env.get(names[key]):
            key = key + "_def"
        # classes declared inside independent definitions must not clash either
        definitions[key] = obj
    return elements, (definitions or None), None


def predicate(case, stats):
    elements, definitions, err = build_case(case)
    if elements is None:
        stats.case(canon(case), False, ["parse:" + err[0]])
        return [{"sub": "parse", "kind": "parse-refused:" + err[1], "detail": list(err)}]
    fails = []
    out = observe.ser_json(*elements, definitions=definitions)
    if out[0] != "ok":
        stats.case(canon(case), False, ["serialize:" + out[0]])
        return [{"sub": "serialize", "kind": "serialize-" + ":".join(map(str, out[:2])), "detail": list(map(str, out))}]
    doc = out[1]
    # 1. JSON-serialisable
    try:
        text = json.dumps(doc)
        doc_rt = json.loads(text)
    except (TypeError, ValueError) as exc:
        return [{"sub": "dumps", "kind": "not-json-serialisable", "detail": str(exc)[:200]}]
    # 2. metaschema-valid
    if jsonschema is not None:
        errs = list(Draft6Validator(_META).iter_errors(doc_rt))
        if errs:
            fails.append({"sub": "metaschema", "kind": "metaschema-invalid",
                          "detail": [e.message[:160] + " @" + "/".join(map(str, e.absolute_path)) for e in errs[:3]]})
    # 3. references resolve inside the document
    store = {"": doc_rt}
    dangling = []
    for ref in refs_of(doc_rt):
        try:
            if not ref.startswith("#"):
                raise KeyError(ref)
            ref6.resolve_ref(ref, "", ref6.Opts(store=store))
        except (KeyError, IndexError, ValueError, TypeError):
            dangling.append(ref)
    if dangling:
        fails.append({"sub": "refs", "kind": "dangling-ref", "detail": sorted(set(dangling))})
    # 4. same meaning (history: every class of the tree has already validated something - state cached on
    #    a parent class must not leak into a subclass)
    from statham.schema.elements.meta import ObjectMeta as _OM
    from statham.serializers.orderer import get_children as _children

    seen_cls = []
    for root_el in elements:
        for el in [root_el] + list(_children(root_el)):
            if isinstance(el, _OM) and not any(el is c for c in seen_cls):
                seen_cls.append(el)
    for cls in sorted(seen_cls, key=lambda c: len(c.__mro__)):
        observe.verdict(cls, {})
    primary = elements[0]
    n_ok = n_rej = 0
    if not dangling:
        opts = _DEV(store)
        for value in case["values"]:
            got = observe.verdict(primary, value)
            try:
                expected = ref6.validate(doc_rt, copy.deepcopy(value), opts, base="")
            except RecursionError:
                stats.inconclusive["ref6-recursion"] += 1
                continue
            if got[0] == "ok":
                n_ok += 1
            elif got[0] == "reject":
                n_rej += 1
            if got[0] not in ("ok", "reject"):
                fails.append({"sub": "call", "kind": "crash:" + str(got[1] if len(got) > 1 else got[0]),
                              "value": value, "detail": list(map(str, got))})
            elif expected is True and got[0] != "ok":
                fails.append({"sub": "meaning", "kind": "document-accepts-tree-rejects", "value": value, "document": doc_rt})
            elif expected is False and got[0] != "reject":
                fails.append({"sub": "meaning", "kind": "tree-accepts-document-rejects", "value": value, "document": doc_rt})
    tree = case.get("recipe")
    has_structure = (
        bool(R.classes_of(tree) or R.has_props(tree)) if tree is not None
        else ("properties" in ref6.keywords_in(case["schema"]))
    )
    classes = ["mode:" + case["mode"], "defs:" + str(len(case.get("defs", [])))]
    if tree is not None:
        idx = R.index(tree)
        if any(p.get("source") for n in idx.values() for p in n.get("props") or []):
            classes.append("renamed-property")
        if any("required" in n.get("kw", {}) and n.get("props") for n in idx.values()):
            classes.append("explicit-required+props")
        if any(n.get("base") for n in idx.values()):
            classes.append("inherited-class")
        for d in case.get("defs", []):
            classes.append("def:" + ("pick-copy" if d.get("copy") else "pick-same" if "pick" in d else "independent"))
    if "definitions" in doc_rt:
        classes.append("has-definitions")
    stats.case(
        canon(case), has_structure and n_ok > 0 and n_rej > 0, classes, n=max(1, len(case["values"])),
        sample={"case": case, "document": doc_rt},
    )
    return fails


replay_predicate = predicate


def run_shard(ctx, stats):
    return runner.hyp_run(ctx, stats, cases(ctx), predicate, BUDGET[ctx.tier])
