"""C13 - elements always validate according to their current configuration."""
import copy

from hypothesis import strategies as st
from hypothesis.stateful import RuleBasedStateMachine, initialize, precondition, rule

import json
import os
import subprocess
import sys

from vlib import observe, recipes as R, ref6, repo, runner
from vlib import jsonvals as jv
from vlib import schemas as sg
from vlib.jsonvals import canon
from vlib.values_for import values_for

from statham.schema.constants import NotPassed
from statham.schema.property import Property

PID = "C13"
RULE = (
    "case = state-machine history on a recipe-built element or model class: steps are reconfigurations "
    "(assign a keyword attribute incl. back to NotPassed; assign an element-valued keyword; reassign "
    ".properties; .properties[name] = Property(...); del .properties[name]; .properties.pop(name); "
    ".properties[name].required = flag; .properties.update({...}) / setdefault; .patternProperties[regex] = element / del, in place) on any node of the tree, "
    "interleaved with validate(value aimed at the current schema); after each validate the real "
    "object must agree (verdict kind and read-back result) with an element freshly built from the "
    "model configuration; non-trivial = history with a validate before and after a reconfiguration "
    "that flips the verdict of an already-used value; distinct = distinct canon(recipe, history)"
)
RULE += (
    ' Keywords are also reassigned to JSON lookalikes of their current value (true/1/1.0, 2/2.0). After a reconfiguration each verdict also gets a second opinion from ref6; where that differs, the same configuration and value are judged in a NEW interpreter (vlib/fresh_driver.py) and only a difference between this process and the pristine one is reported.'
)
RULE += (
    ' Round 9: rule set_elements reassigns the MEMBERS of a composition (drop / reverse / single / new), preferring compositions that are members of other compositions; family nested_composition (anyOf / oneOf / allOf inside one or two allOf levels, next to a typed or untyped sibling); put_prop may replace a renamed property.'
)
ASSUMPTIONS = [
    "only the reconfiguration forms named by the statement/docs: attribute assignment, properties assignment, properties[...] = / del",
    "no shared sub-elements and no inheritance in these trees (a parent's later reconfiguration is C15's subject)",
    "model = vlib.recipes recipe; the fresh element is built from it through the public constructors",
]
BUDGET = {"quick": (180, 14), "thorough": (1400, 30)}

observe.register_formats()
_DEV = ref6.Opts(int_is_int=True, formats=sg.FORMAT_PREDICATES, waiver=True)
PRISTINE = {"calls": 0, "agreed-with-real": 0}


def pristine_verdicts(recipe, values):
    """Verdicts of the configuration in a NEW interpreter (nothing any earlier call or configuration of this
    process left behind can reach it)."""
    home = os.path.dirname(os.path.dirname(os.path.abspath(__file__)))
    env = dict(os.environ, PYTHONPATH=os.pathsep.join([os.path.join(home, ".deps"), home]), PYTHONHASHSEED="0",
               VERIF_REPO_DIR=repo.REPO_DIR)
    p = subprocess.run([sys.executable, "-W", "ignore", "-m", "vlib.fresh_driver"], input=json.dumps(
        {"recipe": recipe, "values": values}).encode(), stdout=subprocess.PIPE, stderr=subprocess.PIPE, env=env,
        timeout=300, cwd=home)
    if p.returncode != 0:
        raise runner.HarnessError("fresh_driver failed: " + p.stderr.decode()[-600:])
    PRISTINE["calls"] += 1
    return json.loads(p.stdout.decode())


NP = "<NotPassed>"
CFG = R.RCfg(depth=2, inheritance=False, sharing=False)
SUB_KEYS = {
    "Element": ["additionalProperties", "additionalItems", "items", "contains", "patternProperties",
                "propertyNames", "dependencies"],
    "Array": ["additionalItems", "items", "contains"],
    "Object": ["additionalProperties", "patternProperties", "propertyNames", "dependencies"],
}


class Harness:
    def __init__(self, recipe):
        self.recipe0 = copy.deepcopy(recipe)
        self.model = copy.deepcopy(recipe)
        self.env = {}
        self.real = R._build(copy.deepcopy(recipe), self.env)
        self.history = []
        self.used = []  # (value, kind) of earlier validations
        self.validated_before_reconfig = False
        self.flipped = False
        self.n_reconfig = 0
        self.n_validate = 0

    def case(self):
        return {"recipe": self.recipe0, "history": copy.deepcopy(self.history)}

    # ------------------------------------------------------------ steps
    def apply(self, op):
        self.history.append(copy.deepcopy(op))
        op = copy.deepcopy(op)
        kind = op["op"]
        if kind == "validate":
            return self.validate(op["value"])
        idx = R.index(self.model)
        node = idx.get(op["node"])
        if node is None or op["node"] not in self.env:
            return []
        obj = self.env[op["node"]]
        self.n_reconfig += 1
        if kind == "set_kw":
            if op["kw"] not in R.ALLOWED_KW[node["kind"]]:
                return []
            if op["value"] == NP:
                setattr(obj, op["kw"], NotPassed())
                node.setdefault("kw", {}).pop(op["kw"], None)
            else:
                setattr(obj, op["kw"], copy.deepcopy(op["value"]))
                node.setdefault("kw", {})[op["kw"]] = copy.deepcopy(op["value"])
        elif kind == "set_sub":
            if op["key"] not in SUB_KEYS.get(node["kind"], []):
                return []
            value = op["value"]
            if value == NP:
                setattr(obj, op["key"], True if op["key"].startswith("additional") else NotPassed())
                node.setdefault("sub", {}).pop(op["key"], None)
            else:
                setattr(obj, op["key"], R._sub(copy.deepcopy(value), self.env))
                node.setdefault("sub", {})[op["key"]] = copy.deepcopy(value)
        elif kind == "set_elements":
            # comp.elements = [...]: drop a member, reverse them, or replace them by new ones
            if node["kind"] not in ("AnyOf", "OneOf", "AllOf") or not op["elements"]:
                return []
            built = [R._build(copy.deepcopy(e), self.env) for e in op["elements"]]
            obj.elements = built
            node["elements"] = copy.deepcopy(op["elements"])
        elif kind == "set_props":
            if node["kind"] not in ("Element", "Object"):
                return []
            obj.properties = R._props({"props": copy.deepcopy(op["props"])}, self.env)
            node["props"] = copy.deepcopy(op["props"])
        elif kind == "update_prop":
            # dict API that bypasses __setitem__: properties.update({...}) / setdefault
            if node["kind"] not in ("Element", "Object") or node.get("props") is None:
                return []
            if isinstance(obj.properties, NotPassed):
                return []
            p = op["prop"]
            new = Property(
                R._build(copy.deepcopy(p["element"]), self.env),
                required=p.get("required", False),
                **({"source": p["source"]} if p.get("source") is not None else {}),
            )
            names = [q["name"] for q in node["props"]]
            if op.get("how") == "setdefault" and p["name"] not in names:
                obj.properties.setdefault(p["name"], new)
            else:
                obj.properties.update({p["name"]: new})
            for i, q in enumerate(node["props"]):
                if q["name"] == p["name"]:
                    node["props"][i] = copy.deepcopy(p)
                    break
            else:
                node["props"].append(copy.deepcopy(p))
        elif kind == "put_prop":
            if node["kind"] not in ("Element", "Object") or node.get("props") is None:
                return []
            if isinstance(obj.properties, NotPassed):
                return []
            p = op["prop"]
            obj.properties[p["name"]] = Property(
                R._build(copy.deepcopy(p["element"]), self.env),
                required=p.get("required", False),
                **({"source": p["source"]} if p.get("source") is not None else {}),
            )
            props = node["props"]
            for i, q in enumerate(props):
                if q["name"] == p["name"]:
                    props[i] = copy.deepcopy(p)
                    break
            else:
                props.append(copy.deepcopy(p))
        elif kind in ("pattern_setitem", "pattern_del"):
            # the keyword's own dict is modified in place (no attribute assignment)
            current = getattr(obj, "patternProperties", NotPassed())
            if isinstance(current, NotPassed) or not isinstance(node.get("sub", {}).get("patternProperties"), dict):
                return []
            if kind == "pattern_setitem":
                current[op["pattern"]] = R._build(copy.deepcopy(op["value"]), self.env)
                node["sub"]["patternProperties"][op["pattern"]] = copy.deepcopy(op["value"])
            else:
                keys = sorted(node["sub"]["patternProperties"])
                if not keys:
                    return []
                k = keys[op["index"] % len(keys)]
                del current[k]
                del node["sub"]["patternProperties"][k]
        elif kind in ("flag_prop", "pop_prop"):
            if node.get("props") is None or isinstance(obj.properties, NotPassed) or not node["props"]:
                return []
            q = node["props"][op["index"] % len(node["props"])]
            if kind == "flag_prop":
                obj.properties[q["name"]].required = bool(op["required"])
                q["required"] = bool(op["required"])
            else:
                obj.properties.pop(q["name"])
                node["props"] = [x for x in node["props"] if x["name"] != q["name"]]
        elif kind == "del_prop":
            if node.get("props") is None or isinstance(obj.properties, NotPassed):
                return []
            names = [q["name"] for q in node["props"]]
            if not names:
                return []
            name = names[op["index"] % len(names)]
            del obj.properties[name]
            node["props"] = [q for q in node["props"] if q["name"] != name]
        # did the reconfiguration flip an already used value? (measured on fresh elements)
        if self.used and not self.flipped:
            fresh = R.build(self.model)
            for value, k in self.used[-6:]:
                if observe.verdict(fresh, value)[0] != k:
                    self.flipped = True
                    break
        return []

    def validate(self, value):
        self.n_validate += 1
        fresh = R.build(self.model)
        a = observe.verdict(self.real, value)
        b = observe.verdict(fresh, value)
        self.used.append((copy.deepcopy(value), b[0]))
        if a[0] != b[0]:
            return [{"sub": "validate", "kind": f"stale-verdict:{a[0]}-vs-fresh-{b[0]}", "value": value,
                     "detail": [list(map(str, a))[:3], list(map(str, b))[:3]], "model": copy.deepcopy(self.model)}]
        if a[0] == "ok":
            pa, pb = observe.plain(a[1]), observe.plain(b[1])
            if not observe.plain_identical(pa, pb):  # same configuration: same construction, number types included
                return [{"sub": "validate", "kind": "stale-result", "value": value,
                         "detail": [canon(pa), canon(pb)], "model": copy.deepcopy(self.model)}]
        if self.n_reconfig and a[0] in ("ok", "reject"):
            # the element built a moment ago lives in THIS process: state kept process-wide (keyed by configuration,
            # say) would reach it too. Draft 6 gives a second opinion; where it differs, a new interpreter decides
            # whether the history is to blame (a plain disagreement with Draft 6 is C01's subject, not this one's).
            try:
                expected = ref6.validate(R.to_schema(self.model), copy.deepcopy(value), _DEV)
            except Exception:  # noqa: BLE001 - aiming only
                expected = None
            if expected is not None and expected != (a[0] == "ok"):
                clean = pristine_verdicts(self.model, [value])[0]
                if clean[0] != a[0]:
                    return [{"sub": "validate", "kind": f"verdict-depends-on-process-history:{a[0]}-vs-pristine-{clean[0]}",
                             "value": value, "model": copy.deepcopy(self.model)}]
                PRISTINE["agreed-with-real"] += 1
        return []

    def duplicate_sources(self, node, prop):
        eff = prop["source"] if prop.get("source") is not None else prop["name"]
        for q in node.get("props") or []:
            if q["name"] == prop["name"]:
                continue
            qe = q["source"] if q.get("source") is not None else q["name"]
            if qe == eff:
                return True
        return False


def fresh_gen(seed):
    g = R._Gen()
    g.next_id = 1000 * (seed + 1)
    g.class_names = [f"N{seed}x{i}" for i in range(4)]
    return g


@st.composite
def overlap_recipes(draw):
    """Declared properties whose JSON names also match a patternProperties regex."""
    kind = draw(st.sampled_from(["Element", "Object"]))
    node = {"id": 1, "kind": kind, "kw": {}}
    if kind == "Object":
        node["name"] = "Foo"
    pats = draw(st.lists(st.sampled_from(["^a", "a|b", "b$", "^.{2}$"]), min_size=1, max_size=2, unique=True))
    def leaf(i):
        k = draw(st.sampled_from(["Integer", "String", "Null", "Boolean", "Number"]))
        kws = [{}, {}, {"default": 1}] + ([{"minimum": 2}] if k in ("Integer", "Number") else [])
        return {"id": i, "kind": k, "kw": draw(st.sampled_from(kws))}

    node["sub"] = {"patternProperties": {p: leaf(10 + i) for i, p in enumerate(pats)}}
    names = draw(st.lists(st.sampled_from(["a", "ab", "b", "abc"]), min_size=1, max_size=2, unique=True))
    node["props"] = [{"name": n, "source": None, "required": draw(st.booleans()),
                      "element": draw(st.sampled_from([{"id": 20 + i, "kind": "Element", "kw": {}},
                                                       {"id": 20 + i, "kind": "String", "kw": {}},
                                                       {"id": 20 + i, "kind": "Element", "kw": {"default": "d"}}]))}
                     for i, n in enumerate(names)]
    return node


@st.composite
def lookalike_recipes(draw):
    """Small trees whose literal and numeric keywords hold values with JSON lookalikes (true/1/1.0, false/0, 2/2.0):
    reassigning one of them to its lookalike is a reconfiguration that sloppy (==/hash-keyed) state cannot see."""
    scal = st.sampled_from([True, False, 0, 1, 1.0, 0.0, 2, 2.0])
    def leaf(i):
        form = draw(st.sampled_from(["const", "enum", "num", "const-nested"]))
        if form == "const":
            return {"id": i, "kind": draw(st.sampled_from(["Element", "Element", "Integer", "Number", "Boolean"])),
                    "kw": {"const": draw(scal)}}
        if form == "enum":
            return {"id": i, "kind": "Element", "kw": {"enum": draw(st.lists(scal, min_size=1, max_size=2))}}
        if form == "const-nested":
            return {"id": i, "kind": "Element", "kw": {"const": draw(st.sampled_from([[True], {"a": 1}, [0, False]]))}}
        kw = draw(st.sampled_from(["multipleOf", "minimum", "maximum"]))
        return {"id": i, "kind": draw(st.sampled_from(["Element", "Number", "Integer"])),
                "kw": {kw: draw(st.sampled_from([1, 1.0, 2, 2.0]))}}

    shape = draw(st.integers(0, 2))
    if shape == 0:
        return leaf(1)
    if shape == 1:
        return {"id": 1, "kind": "Array", "kw": {}, "sub": {"items": leaf(2)}}
    return {"id": 1, "kind": "Element", "kw": {}, "props": [
        {"name": "a", "source": None, "required": draw(st.booleans()), "element": leaf(2)},
        {"name": "b", "source": None, "required": False, "element": leaf(3)}]}


@st.composite
def default_flip_recipes(draw):
    """A defaulted element next to ONE constraint that decides whether the default is valid for it; reassigning the
    constraint flips that. An omitted value must then be treated as the configuration of the moment says (converted
    when valid, handed back as-is when not)."""
    leaf = draw(st.sampled_from([
        {"kind": "Number", "kw": {"default": 5, "minimum": 10}},
        {"kind": "Number", "kw": {"default": 5, "minimum": 0}},
        {"kind": "Number", "kw": {"default": 4, "multipleOf": 3}},
        {"kind": "String", "kw": {"default": "ab", "minLength": 5}},
        {"kind": "Array", "kw": {"default": [1, 2], "minItems": 3}, "sub": {"items": {"id": 7, "kind": "Number", "kw": {}}}},
        {"kind": "Array", "kw": {"default": [1], "maxItems": 0}, "sub": {"items": {"id": 7, "kind": "Number", "kw": {}}}},
        {"kind": "Element", "kw": {"default": {"n": 1}, "required": ["zz"]},
         "props": [{"name": "n", "source": None, "required": False, "element": {"id": 8, "kind": "Number", "kw": {}}}]},
    ]))
    leaf = dict(copy.deepcopy(leaf), id=2)
    holder = draw(st.sampled_from(["Element", "Object"]))
    node = {"id": 1, "kind": holder, "kw": {}, "props": [
        {"name": "a", "source": draw(st.sampled_from([None, "a-b"])), "required": False, "element": leaf},
        {"name": "b", "source": None, "required": False, "element": {"id": 3, "kind": "Integer", "kw": {}}}]}
    if holder == "Object":
        node["name"] = "Holder"
    return node


@st.composite
def nested_composition_recipes(draw):
    """A composition inside an allOf: which member builds the outer result depends on the inner composition's members
    (explicit type / union / untyped) - and those can be reassigned."""
    inner_kind = draw(st.sampled_from(["AnyOf", "OneOf", "AllOf"]))
    inner = {"id": 2, "kind": inner_kind, "kw": {}, "elements": [
        {"id": 3, "kind": draw(st.sampled_from(["Integer", "Number", "String"])), "kw": {}},
        {"id": 4, "kind": draw(st.sampled_from(["String", "Number", "Element", "Null"])), "kw": {}}]}
    mid = {"id": 5, "kind": "AllOf", "kw": {}, "elements": [inner]} if draw(st.booleans()) else inner
    outer = {"id": 1, "kind": "AllOf", "kw": {}, "elements": [mid, {"id": 6, "kind": draw(st.sampled_from(["Number", "Element"])),
                                                                 "kw": {}}]}
    if draw(st.integers(0, 2)) == 0:
        return {"id": 9, "kind": "Element", "kw": {}, "props": [
            {"name": "v", "source": None, "required": False, "element": outer}]}
    return outer


@st.composite
def tuple_tail_recipes(draw):
    """Tuple items with a tail governed by additionalItems: arrays longer than the tuple are validated, additionalItems
    is reassigned (another schema, false, true), and the same arrays are validated again."""
    tail = draw(st.sampled_from([True, {"id": 5, "kind": "Number", "kw": {}}, {"id": 5, "kind": "String", "kw": {}}]))
    arr = {"id": 2, "kind": draw(st.sampled_from(["Array", "Element"])), "kw": {},
           "sub": {"items": [{"id": 3, "kind": "String", "kw": {}}, {"id": 4, "kind": "Integer", "kw": {}}][:draw(st.integers(1, 2))],
                   "additionalItems": tail}}
    if draw(st.booleans()):
        return dict(arr, id=1)
    return {"id": 1, "kind": "Element", "kw": {}, "props": [
        {"name": "t", "source": None, "required": False, "element": arr}]}


TAILS = [["s", 1, 2.5, 3], ["s", 1, "x"], ["s", 1], ["s"], ["s", 1, 2.5, "x", None], []]
FLIPS = {"minimum": [0, 10, -3, 5], "multipleOf": [2, 3, 4, 1], "minLength": [0, 2, 5], "minItems": [0, 2, 3],
         "maxItems": [0, 1, 5], "required": [[], ["zz"], ["n"]]}


class Machine(RuleBasedStateMachine):
    _sink = None
    _stats = None

    def __init__(self):
        super().__init__()
        self.h = None
        self.counter = 0

    @initialize(recipe=st.one_of(R.recipes(CFG), R.recipes(CFG), R.recipes(CFG), overlap_recipes(), lookalike_recipes(),
                                 default_flip_recipes(), tuple_tail_recipes(), nested_composition_recipes()), data=st.data())
    def init(self, recipe, data):
        self.h = Harness(recipe)
        # every history starts with validations, so that later reconfigurations
        # have earlier calls (and possibly memoised state) to contradict
        for value in data.draw(values_for(R.to_schema(recipe), 2, 3)):
            self._do({"op": "validate", "value": value})

    def _do(self, op):
        if runner.shrink_budget_exceeded(self._sink):
            return
        finished, fails = runner.time_limited(lambda: self.h.apply(op), self._stats, "step")
        if not finished:
            return
        unknown = runner.triage(PID, self.h.case(), fails, self._stats)
        if unknown:
            runner.record_violation(self._sink, self.h.case(), unknown)
            raise runner.Violation(self.h.case(), unknown)

    def _nodes(self, kinds=None):
        idx = R.index(self.h.model)
        return sorted(i for i, n in idx.items() if i in self.h.env and (kinds is None or n["kind"] in kinds))

    @rule(data=st.data())
    def validate(self, data):
        schema = R.to_schema(self.h.model)
        value = data.draw(values_for(schema, 1, 1))[0]
        self._do({"op": "validate", "value": value})

    @rule(data=st.data())
    def set_kw(self, data):
        ids = [i for i in self._nodes() if R.ALLOWED_KW[R.index(self.h.model)[i]["kind"]]]
        if not ids:
            return
        nid = data.draw(st.sampled_from(ids))
        node = R.index(self.h.model)[nid]
        present = sorted(node.get("kw", {}))
        if present and data.draw(st.booleans()):
            kw = data.draw(st.sampled_from(present))
        else:
            kw = data.draw(st.sampled_from(R.ALLOWED_KW[node["kind"]]))
        alike = []
        if kw in present and kw in ("const", "enum", "default"):
            alike = jv.lookalike(node["kw"][kw])
        elif kw in present and kw in ("minimum", "maximum", "exclusiveMinimum", "exclusiveMaximum", "multipleOf"):
            alike = [x for x in jv.lookalike(node["kw"][kw]) if not isinstance(x, bool)]
        if kw in present and data.draw(st.integers(0, 2)) == 0:
            value = NP
        elif alike and data.draw(st.booleans()):
            # a value that COMPARES equal to the current one (True/1/1.0, 2/2.0, nested) but is another JSON value
            value = data.draw(st.sampled_from(alike))
        else:
            value = R._lit_kw(data.draw, R.RCfg(), kw)
        old = node.get("kw", {}).get(kw, NP)
        self._do({"op": "set_kw", "node": nid, "kw": kw, "value": value})
        if kw in ("const", "enum") and data.draw(st.booleans()):
            # the literals themselves, old and new and what they might be confused with, wherever the node sits
            pool = []
            for lit in (value, old):
                if lit == NP:
                    continue
                members = lit if kw == "enum" and isinstance(lit, list) else [lit]
                for m in members[:2]:
                    pool += [m] + jv.lookalike(m)[:2]
            schema = R.to_schema(self.h.model)
            for lit in pool[:4]:
                base = data.draw(values_for(schema, 1, 1))[0]
                self._do({"op": "validate", "value": lit})
                if isinstance(base, dict) and base:
                    k = data.draw(st.sampled_from(sorted(base)))
                    self._do({"op": "validate", "value": {**base, k: lit}})
                elif isinstance(base, list):
                    self._do({"op": "validate", "value": [lit]})
        self._aimed_validate(data)

    @rule(data=st.data())
    def set_elements(self, data):
        ids = self._nodes(["AnyOf", "OneOf", "AllOf"])
        if not ids:
            return
        # compositions that are members of other compositions come first: what the OUTER ones derive from their members
        # (which member is the most specific, what the union of types is) has to follow the inner change
        idx_all = R.index(self.h.model)
        inner_ids = sorted({e["id"] for i in ids for e in (idx_all[i].get("elements") or [])
                            if "kind" in e and e["id"] in ids})
        nid = data.draw(st.sampled_from(inner_ids)) if inner_ids and data.draw(st.integers(0, 2)) else \
            data.draw(st.sampled_from(ids))
        node = idx_all[nid]
        current = node.get("elements") or []
        inline = [e for e in current if "kind" in e]
        how = data.draw(st.sampled_from(["drop", "drop", "reverse", "new", "single"]))
        self.counter += 1
        gen = fresh_gen(self.counter)
        if how == "drop" and len(inline) > 1:
            new = inline[:-1]
        elif how == "reverse" and len(inline) > 1:
            new = list(reversed(inline))
        elif how == "single" and inline:
            new = inline[:1]
        else:
            new = [data.draw(R._node(CFG, 0, gen)) for _ in range(data.draw(st.integers(1, 2)))]
        # (members that were references to shared nodes are not carried over: CFG has sharing off)
        for value in data.draw(values_for(R.to_schema(self.h.model), 1, 2)):
            self._do({"op": "validate", "value": value})
        self._do({"op": "set_elements", "node": nid, "elements": new})
        self._aimed_validate(data)
        for value in (1, 1.5, "a", None, {}, [1]):
            self._do({"op": "validate", "value": value})

    @rule(data=st.data())
    def retail(self, data):
        """Validate arrays longer than a tuple, give the tuple another additionalItems, validate them again."""
        idx = R.index(self.h.model)
        cands = [i for i in self._nodes(["Array", "Element"]) if isinstance(idx[i].get("sub", {}).get("items"), list)]
        if not cands:
            return
        nid = data.draw(st.sampled_from(cands))
        wrap = (lambda v: v) if nid == self.h.model.get("id") else (lambda v: {"t": v})
        arrays = data.draw(st.lists(st.sampled_from(TAILS), min_size=2, max_size=3))
        for a in arrays:
            self._do({"op": "validate", "value": wrap(a)})
        self.counter += 1
        new = data.draw(st.sampled_from([False, True, {"id": 9700 + self.counter, "kind": "String", "kw": {}},
                                         {"id": 9700 + self.counter, "kind": "Null", "kw": {}}]))
        self._do({"op": "set_sub", "node": nid, "key": "additionalItems", "value": new})
        for a in arrays + [["s", 1, None]]:
            self._do({"op": "validate", "value": wrap(a)})

    @rule(data=st.data())
    def flip_default_validity(self, data):
        """Reassign the constraint next to a default, then validate values that OMIT the defaulted member."""
        idx = R.index(self.h.model)
        cands = [(i, k) for i in self._nodes() for k in FLIPS
                 if "default" in idx[i].get("kw", {}) and k in R.ALLOWED_KW[idx[i]["kind"]]
                 and (k in idx[i]["kw"] or k in ("minimum", "minLength", "minItems"))]
        if not cands:
            return
        nid, kw = data.draw(st.sampled_from(cands))
        self._do({"op": "validate", "value": {}})
        self._do({"op": "set_kw", "node": nid, "kw": kw, "value": data.draw(st.sampled_from(FLIPS[kw]))})
        for value in ({}, {"b": 1}, [], [{}]):
            self._do({"op": "validate", "value": value})

    @rule(data=st.data())
    def set_sub(self, data):
        ids = self._nodes(kinds=("Element", "Array", "Object"))
        if not ids:
            return
        nid = data.draw(st.sampled_from(ids))
        node = R.index(self.h.model)[nid]
        present = sorted(k for k in node.get("sub", {}) if k in SUB_KEYS[node["kind"]])
        if present and data.draw(st.booleans()):
            key = data.draw(st.sampled_from(present))  # re-configure a keyword that is in use
        else:
            key = data.draw(st.sampled_from(SUB_KEYS[node["kind"]]))
        self.counter += 1
        gen = fresh_gen(self.counter)
        sub = lambda: data.draw(R._node(CFG, 1, gen))  # noqa: E731
        if key in ("additionalProperties", "additionalItems"):
            value = data.draw(st.booleans()) if data.draw(st.booleans()) else sub()
        elif key == "items":
            value = [sub() for _ in range(data.draw(st.integers(1, 2)))] if data.draw(st.integers(0, 2)) == 0 else sub()
        elif key in ("contains", "propertyNames"):
            value = sub() if key == "contains" else {"id": gen.new_id(), "kind": "String",
                                                      "kw": {"maxLength": data.draw(st.integers(0, 3))}}
        elif key == "patternProperties":
            current = node.get("sub", {}).get("patternProperties")
            how = data.draw(st.sampled_from(["new", "new", "relax", "empty", "remove"]))
            if how == "relax" and current:
                # same patterns, accept-all elements: verdicts that the old pattern elements decided must flip
                value = {k: {"id": gen.new_id(), "kind": "Element", "kw": {}} for k in current}
            elif how == "empty":
                value = {}
            elif how == "remove":
                value = NP
            else:
                value = {data.draw(st.sampled_from(R.PATTERNS)): sub()}
        else:
            value = {data.draw(st.sampled_from(["a", "b", "class"])):
                     (data.draw(st.lists(st.sampled_from(["a", "b", "d"]), max_size=2, unique=True))
                      if data.draw(st.booleans()) else sub())}
        self._do({"op": "set_sub", "node": nid, "key": key, "value": value})
        self._aimed_validate(data)

    @rule(data=st.data())
    def set_props(self, data):
        ids = self._nodes(kinds=("Element", "Object"))
        if not ids:
            return
        nid = data.draw(st.sampled_from(ids))
        self.counter += 1
        props = data.draw(R._props_strategy(CFG, 1, fresh_gen(self.counter)))
        self._do({"op": "set_props", "node": nid, "props": props})
        self._aimed_validate(data)

    @rule(data=st.data())
    def put_prop(self, data):
        idx = R.index(self.h.model)
        ids = [i for i in self._nodes(kinds=("Element", "Object")) if idx[i].get("props") is not None]
        if not ids:
            return
        nid = data.draw(st.sampled_from(ids))
        self.counter += 1
        props = data.draw(R._props_strategy(CFG, 1, fresh_gen(self.counter)))
        renamed = [q for q in idx[nid].get("props") or [] if q.get("source") is not None and q["source"] != q["name"]]
        if props and renamed and data.draw(st.booleans()):
            # REPLACE a renamed property by an un-renamed one of the same attribute name: the JSON name is then the
            # attribute name, nothing of the old wrapper lives on
            props[0] = dict(props[0], name=data.draw(st.sampled_from(renamed))["name"], source=None)
        for p in props[:1]:
            if self.h.duplicate_sources(idx[nid], p):
                continue
            how = data.draw(st.sampled_from(["item", "item", "update", "setdefault"]))
            if how == "item":
                self._do({"op": "put_prop", "node": nid, "prop": p})
            else:
                self._do({"op": "update_prop", "node": nid, "prop": p, "how": how})
        self._aimed_validate(data)

    @rule(data=st.data())
    def del_prop(self, data):
        idx = R.index(self.h.model)
        ids = [i for i in self._nodes(kinds=("Element", "Object")) if idx[i].get("props")]
        if not ids:
            return
        nid = data.draw(st.sampled_from(ids))
        self._do({"op": "del_prop", "node": nid, "index": data.draw(st.integers(0, 5))})
        self._aimed_validate(data)

    @rule(data=st.data())
    def pattern_in_place(self, data):
        idx = R.index(self.h.model)
        ids = [i for i in self._nodes(kinds=("Element", "Object"))
               if isinstance(idx[i].get("sub", {}).get("patternProperties"), dict)]
        if not ids:
            return
        nid = data.draw(st.sampled_from(ids))
        self.counter += 1
        gen = fresh_gen(self.counter)
        if data.draw(st.booleans()):
            pats = sorted(idx[nid]["sub"]["patternProperties"]) + list(R.PATTERNS)
            self._do({"op": "pattern_setitem", "node": nid, "pattern": data.draw(st.sampled_from(pats)),
                      "value": data.draw(R._node(CFG, 1, gen))})
        else:
            self._do({"op": "pattern_del", "node": nid, "index": data.draw(st.integers(0, 5))})
        self._aimed_validate(data)

    @rule(data=st.data())
    def prop_wrapper(self, data):
        """Reconfigure a property wrapper in place: flip .required, or remove it with dict.pop()."""
        idx = R.index(self.h.model)
        ids = [i for i in self._nodes(kinds=("Element", "Object")) if idx[i].get("props")]
        if not ids:
            return
        nid = data.draw(st.sampled_from(ids))
        if data.draw(st.integers(0, 2)) == 0:
            self._do({"op": "pop_prop", "node": nid, "index": data.draw(st.integers(0, 5))})
        else:
            self._do({"op": "flag_prop", "node": nid, "index": data.draw(st.integers(0, 5)),
                      "required": data.draw(st.booleans())})
        self._aimed_validate(data)

    def _aimed_validate(self, data):
        """validate -> reconfigure -> validate on the same tree is what memoisation breaks."""
        schema = R.to_schema(self.h.model)
        for value in data.draw(values_for(schema, 1, 2)):
            self._do({"op": "validate", "value": value})
        if self.h.used and data.draw(st.booleans()):
            old = self.h.used[data.draw(st.integers(0, len(self.h.used) - 1))][0]
            self._do({"op": "validate", "value": old})

    def teardown(self):
        if self.h is None or self._stats is None:
            return
        h = self.h
        ops = [o["op"] for o in h.history]
        first_re = next((i for i, o in enumerate(ops) if o != "validate"), None)
        before = first_re is not None and "validate" in ops[:first_re]
        after = first_re is not None and "validate" in ops[first_re:]
        classes = ["op:" + o for o in set(ops)]
        if h.flipped:
            classes.append("verdict-flipping-reconfiguration")
        self._stats.extra["pristine_process_oracle"] = dict(PRISTINE)
        self._stats.case(canon(h.case()), bool(before and after and h.flipped), classes,
                         n=max(1, h.n_validate), sample=h.case())


def replay_predicate(case, stats):
    h = Harness(case["recipe"])
    fails = []
    for op in case["history"]:
        fails.extend(h.apply(op))
    stats.case(canon(case), True, ["replay"], n=max(1, len(case["history"])))
    return fails


def run_shard(ctx, stats):
    n, steps = BUDGET[ctx.tier]
    return runner.machine_run(ctx, stats, Machine, n, steps)
