"""C17 - equal elements are interchangeable."""
import copy

from hypothesis import strategies as st

from vlib import observe, recipes as R, runner
from vlib.jsonvals import canon, json_eq
from vlib.values_for import values_for

PID = "C17"
RULE = (
    "case = pair of element-tree recipes: identical (two independent builds), one-point mutant "
    "(b built from a's own child element OBJECTS under property wrappers differing in required/source; "
    "keyword added/dropped/changed, literal swapped for a bool/number lookalike, property "
    "required/source/element changed or dropped, element class changed, class renamed, composition "
    "reordered), or the tree vs parse_element(its schema); x 6-10 values aimed at both schemas; "
    "checks: a == a, (a == b) == (b == a), independent builds equal, and a == b implies same verdict "
    "for every value and json_eq(alpha(serialize_json(a)), alpha(serialize_json(b))); for root-keyword "
    "mutants additionally compare -> reassign the differing keywords on a -> compare again (a must now "
    "equal b, and relate to a fresh build of its old recipe as b does); non-trivial = "
    "pair that compares equal through two distinct builds, or a mutant pair; distinct = canon(case)"
)
RULE += (
    " Mode 'positions': variants of one titled object schema (plain, + trivial composition + default, + default, + description, + keyword) at 2-3 positions of one document; the element at each position must equal, and behave like, an independent parse of its own sub-schema."
)
RULE += (
    ' Round 9: a directed family writes one numeric keyword (multipleOf, minimum, maximum, exclusive bounds) as int and as float and judges the two equal elements on numbers between 2**49 and 2**64 of both signs, written as int and as float.'
)
RULE += (
    ' Round 10: mutation reorder-map and the directed families map-in-another-order (dependencies / patternProperties with [] / Nothing() / trivial entries, written in both orders) and same-object-twice-vs-two-copies; schemas are compared with `required` and dependency name lists as sets.'
)
ASSUMPTIONS = [
    "alpha() inlines #/definitions refs and drops class-name-derived titles: equality ignores class names by design and a title is an annotation",
    "JSON comparison is type-faithful (true != 1, 1 == 1.0)",
]
BUDGET = {"quick": 600, "thorough": 6000}

observe.register_formats()


BIG_NUMBERS = [2 ** 50 + 1, 2 ** 51 + 1, 3 * 2 ** 49 + 1, 2 ** 52 - 1, 2 ** 49 + 1, 7 * 2 ** 48 + 3, 2 ** 53 + 1, 2 ** 53 + 2, 3 * 2 ** 60, 3 * 2 ** 60 + 1, 2 ** 64, 5 * 2 ** 55, 15 * 2 ** 52 + 1, 10 ** 18 + 3]


@st.composite
def cases(draw):
    recipe = draw(R.recipes(R.RCfg(depth=2)))
    mode = draw(st.sampled_from(["same", "mutant", "mutant", "mutant", "parsed"]))
    if draw(st.integers(0, 5)) == 0:
        # a class that INHERITS keywords vs the flat class that lacks one of them
        gen = R._Gen()
        cfg_i = R.RCfg(depth=1, inheritance=False)
        parent = draw(R._node(cfg_i, 1, gen, kinds=["Object"]))
        child = draw(R._node(cfg_i, 1, gen, kinds=["Object"]))
        if parent.get("kind") == "Object" and child.get("kind") == "Object":
            parent.setdefault("sub", {}).setdefault("additionalProperties", draw(st.sampled_from([False, False, True])))
            if draw(st.booleans()):
                parent.setdefault("kw", {}).setdefault("minProperties", draw(st.integers(1, 2)))
            everything = R.index(copy.deepcopy([parent, child]))
            child["base"] = parent
            names = {p["name"] for p in parent.get("props", [])}
            srcs = {p["source"] if p.get("source") is not None else p["name"] for p in parent.get("props", [])}
            child["props"] = [p for p in child.get("props", []) if p["name"] not in names and
                              (p["source"] if p.get("source") is not None else p["name"]) not in srcs]
            child = R.repair_refs(copy.deepcopy({k: child[k] for k in ("id", "kind", "name", "kw", "base", "sub", "props")
                                                 if k in child}), everything)
            kw, sub, props = copy.deepcopy(R.flat_class(child, R.index(child)))
            inherited = sorted((set(parent.get("kw", {})) - set(child.get("kw", {})))
                               | {"sub:" + k for k in set(parent.get("sub", {})) - set(child.get("sub", {}))})
            drop = draw(st.sampled_from(inherited + [None])) if inherited else None
            flat = {"id": 7000, "kind": "Object", "name": "Flat", "kw": {k: v for k, v in kw.items() if k != drop},
                    "sub": {k: v for k, v in sub.items() if "sub:" + k != drop}, "props": props}
            flat = R.repair_refs(flat, R.index(child))
            values = draw(values_for(R.to_schema(child), 5, 8))
            return {"mode": "inherit", "a": child, "b": flat, "dropped": drop, "values": values}
    directed = draw(st.integers(0, 11))
    if directed == 1:
        # a composition holding the SAME element object twice vs the equal one holding two independently built copies
        kind = draw(st.sampled_from(["OneOf", "OneOf", "AnyOf", "AllOf"]))
        leaf = draw(st.sampled_from([{"kind": "Integer", "kw": {}}, {"kind": "String", "kw": {"minLength": 1}},
                                     {"kind": "Element", "kw": {"minimum": 0}}, {"kind": "Array", "kw": {}},
                                     {"kind": "Object", "name": "Leaf", "kw": {}, "props": [
                                         {"name": "v", "source": None, "required": False,
                                          "element": {"id": 5, "kind": "Integer", "kw": {}}}]}]))
        third = [{"id": 4, "kind": "Null", "kw": {}}] if draw(st.booleans()) else []
        a = {"id": 1, "kind": kind, "kw": {}, "elements": [dict(copy.deepcopy(leaf), id=2), {"ref": 2}] + third}
        twin = dict(copy.deepcopy(leaf), id=3)
        if twin["kind"] == "Object":
            twin["props"][0]["element"]["id"] = 6
        b = {"id": 1, "kind": kind, "kw": {}, "elements": [dict(copy.deepcopy(leaf), id=2), twin] + third}
        values = [0, 1, -3, "a", "", [], [1], {}, {"v": 1}, {"v": "x"}, None, 1.5, True]
        return {"mode": "mutant", "mutation": "same-object-twice-vs-two-copies:" + kind, "a": a, "b": b, "values": values,
                "must_be_equal": True}
    if directed == 2:
        # one keyword -> value MAP written in two orders (maps are equal whatever their order), with degenerate entries
        # among the values: nothing required alongside ([]), the schema nothing satisfies, the trivial schema
        which = draw(st.sampled_from(["dependencies", "dependencies", "patternProperties"]))
        if which == "dependencies":
            keys = draw(st.lists(st.sampled_from(["a", "b", "c", "class"]), min_size=2, max_size=3, unique=True))
            entries = {k: draw(st.sampled_from([[], [], ["c"], ["a", "d"], {"id": 0, "kind": "Nothing", "kw": {}},
                                                {"id": 0, "kind": "Element", "kw": {}},
                                                {"id": 0, "kind": "Element", "kw": {"minProperties": 2}}])) for k in keys}
            names = ["a", "b", "c", "class", "d"]
        else:
            keys = draw(st.lists(st.sampled_from(["^a", "b", "", "c$"]), min_size=2, max_size=3, unique=True))
            entries = {k: draw(st.sampled_from([{"id": 0, "kind": "Nothing", "kw": {}}, {"id": 0, "kind": "Element", "kw": {}},
                                                {"id": 0, "kind": "Integer", "kw": {}}, {"id": 0, "kind": "String", "kw": {}}]))
                       for k in keys}
            names = ["a", "ab", "b", "c", "abc"]
        for n, (k, v) in enumerate(entries.items()):
            if isinstance(v, dict):
                entries[k] = dict(v, id=10 + n)
        kind = draw(st.sampled_from(["Element", "Object"]))
        a = {"id": 1, "kind": kind, "kw": {}, "sub": {which: entries}}
        b = {"id": 1, "kind": kind, "kw": {}, "sub": {which: dict(reversed(list(entries.items())))}}
        if kind == "Object":
            a["name"] = b["name"] = "Holder"
            a["props"] = b["props"] = []
        subsets = draw(st.lists(st.lists(st.sampled_from(names), max_size=4, unique=True), min_size=4, max_size=8))
        values = [{n: draw(st.sampled_from([1, "s"])) for n in subset} for subset in subsets] + [{n: 1 for n in names[:3]}]
        return {"mode": "mutant", "mutation": "map-in-another-order:" + which, "a": a, "b": b, "values": values,
                "must_be_equal": True}
    if directed == 0:
        # the same number written as an integer and as a float (2 == 2.0: the elements are equal), judged on numbers
        # around and beyond the precision of a float, of both signs, written as int and as float
        kind = draw(st.sampled_from(["Element", "Integer", "Number"]))
        kw_name = draw(st.sampled_from(["multipleOf", "multipleOf", "minimum", "maximum", "exclusiveMinimum", "exclusiveMaximum"]))
        m = draw(st.sampled_from([2, 3, 5, 7, 10, 2 ** 20, 2 ** 52, 2 ** 53])) if kw_name == "multipleOf" else \
            draw(st.sampled_from([0, 1, -1, 2 ** 52, 2 ** 53, -(2 ** 53)]))
        big = draw(st.lists(st.sampled_from(BIG_NUMBERS), min_size=3, max_size=8, unique=True))
        values = big + [-v for v in big[:2]] + [float(v) for v in big[:2]] + [0, m, m + 1, 3 * m, -m, 1.5]
        if kind == "Integer":
            values = [v for v in values if not isinstance(v, float) or v == int(v)]
        return {"mode": "mutant", "mutation": "lookalike-kw:" + kw_name, "values": values,
                "a": {"id": 1, "kind": kind, "kw": {kw_name: m}}, "b": {"id": 1, "kind": kind, "kw": {kw_name: float(m)}}}
    if draw(st.integers(0, 6)) == 0:
        # a tree that uses ONE class twice vs the same tree whose second use is an equal class under another name:
        # the trees are equal, so they must mean - and serialise to - the same thing
        gen = R._Gen()
        cls = draw(R._node(R.RCfg(depth=1, inheritance=False, sharing=False), 1, gen, kinds=["Object"]))
        other = R.twin(cls, gen) if cls.get("kind") == "Object" else None
        if other is not None:
            def holder(second):
                where = draw(st.sampled_from(["props", "props", "anyOf", "array+prop"]))
                return where, second
            where = draw(st.sampled_from(["props", "anyOf", "items+prop"]))
            def tree(second):
                if where == "props":
                    return {"id": 9000, "kind": "Element", "kw": {}, "props": [
                        {"name": "p", "source": None, "required": False, "element": copy.deepcopy(cls)},
                        {"name": "q", "source": None, "required": False, "element": second}]}
                if where == "anyOf":
                    return {"id": 9000, "kind": "AnyOf", "kw": {}, "elements": [
                        {"id": 9001, "kind": "Array", "kw": {}, "sub": {"items": copy.deepcopy(cls)}}, second]}
                return {"id": 9000, "kind": "Element", "kw": {}, "sub": {"items": copy.deepcopy(cls)}, "props": [
                    {"name": "q", "source": None, "required": False, "element": second}]}
            a = tree({"ref": cls["id"]})
            b = tree(copy.deepcopy(other))
            values = draw(values_for(R.to_schema(a), 4, 6))
            return {"mode": "mutant", "mutation": "second-use-is-an-equal-twin:" + where, "a": a, "b": b, "values": values,
                    "must_be_equal": True}
    if recipe.get("props") and recipe["kind"] in ("Element", "Object") and draw(st.integers(0, 2)) == 0:
        # b re-uses a's element OBJECTS under property wrappers that differ in one attribute
        values = draw(values_for(R.to_schema(recipe), 4, 6))
        return {"mode": "shared", "a": recipe, "values": values,
                "prop": draw(st.integers(0, len(recipe["props"]) - 1)),
                "change": draw(st.sampled_from(["required", "source"]))}
    case = {"mode": mode, "a": recipe}
    schema_a = R.to_schema(recipe)
    values = draw(values_for(schema_a, 4, 6))
    if mode == "mutant":
        mutant, op = draw(R.mutate(recipe))
        case["b"] = mutant
        case["mutation"] = op
        values += draw(values_for(R.to_schema(mutant), 3, 5))
    if case.get("mutation") == "nest":
        # values that several members accept at once (what a oneOf is sensitive to)
        values += [0, 1, 5, -1, 1.5, "a", None, {}, [], True]
    if "multipleOf" in canon(schema_a) and draw(st.booleans()):
        # 2 == 2.0 makes elements equal: they must then agree beyond float precision too
        values += draw(st.lists(st.sampled_from(BIG_NUMBERS), min_size=1, max_size=3))
    case["values"] = values
    return case


def alpha(doc):
    """Inline definition refs, drop titles and the definitions section."""
    defs = doc.get("definitions", {}) if isinstance(doc, dict) else {}

    def walk(s, depth=0, literal=False):
        if depth > 60:
            return "<deep>"
        if isinstance(s, list):
            return [walk(x, depth + 1, literal) for x in s]
        if not isinstance(s, dict):
            return s
        if literal:
            return {k: walk(v, depth + 1, True) for k, v in s.items()}
        if set(s) == {"$ref"}:
            ref = s["$ref"]
            if ref == "#":
                return {"<root>": True}
            name = ref.split("/")[-1]
            if name in defs:
                return walk(defs[name], depth + 1)
            return s
        out = {}
        for k, v in s.items():
            if k in ("title", "definitions"):
                continue
            if k in ("const", "enum", "default"):
                out[k] = walk(v, depth + 1, True)
            elif k == "required" and isinstance(v, list) and all(isinstance(x, str) for x in v):
                out[k] = sorted(v)  # a set of names in JSON Schema: written in declaration order, which == ignores
            elif k in ("properties", "patternProperties", "dependencies"):
                out[k] = {kk: (sorted(vv) if isinstance(vv, list) and all(isinstance(x, str) for x in vv)
                               else walk(vv, depth + 1)) for kk, vv in v.items()} if isinstance(v, dict) else v
            else:
                out[k] = walk(v, depth + 1)
        return out

    return walk(doc)


def build_shared(case, a):
    from statham.schema.constants import NotPassed
    from statham.schema.elements import Element, Object
    from statham.schema.property import Property

    target = case["a"]["props"][case["prop"]]["name"]
    props = {}
    for name, prop in a.properties.items():
        required, source = prop.required, prop.source
        if name == target:
            if case["change"] == "required":
                required = not required
            else:
                source = (source if source is not None else name) + "_x"
        props[name] = Property(prop.element, required=required, source=source)
    node = case["a"]
    kw = {k: copy.deepcopy(v) for k, v in node.get("kw", {}).items()}
    sub = {}
    for k in node.get("sub", {}):
        sub[k] = getattr(a, k)  # the very same objects
    if node["kind"] == "Object":
        return Object.inline(node["name"], properties=props, **kw, **sub)
    return Element(properties=props, **kw, **sub)


def build_pair(case):
    a = R.build(case["a"])
    if case["mode"] == "shared":
        return a, build_shared(case, a)
    if case["mode"] == "same":
        b = R.build(case["a"])
    elif case["mode"] in ("mutant", "inherit"):
        b = R.build(case["b"])
    else:
        parsed = observe.safe_parse(R.to_schema(case["a"]))
        b = parsed[1] if parsed[0] == "ok" else None
    return a, b


@st.composite
def position_cases(draw):
    """One document holding VARIANTS of one titled object schema at several positions (the parser shares a class
    between equal same-titled object schemas): each position's element must still equal an independent parse of
    its own sub-schema, and positions that compare equal must mean the same."""
    title = draw(st.sampled_from(["Address", "my thing"]))
    base = {"type": "object", "title": title,
            "properties": {draw(st.sampled_from(["street", "class", "a-b"])): {"type": "string"}}}
    if draw(st.booleans()):
        base["required"] = sorted(base["properties"])
    if draw(st.integers(0, 2)) == 0:
        base["additionalProperties"] = False
    trivial = st.sampled_from([{"allOf": [{}]}, {"anyOf": [{"title": "x"}]}, {"oneOf": [True]}, {"allOf": [{}, True]},
                               {"anyOf": [{}], "allOf": [{"description": "d"}]}])
    default = st.sampled_from([{}, {"street": "x"}, None, 0, False])

    def variant():
        v = copy.deepcopy(base)
        form = draw(st.sampled_from(["plain", "plain", "trivial+default", "trivial+default", "default", "trivial",
                                     "description", "keyword", "nontrivial-composition"]))
        if form in ("trivial+default", "trivial"):
            v.update(copy.deepcopy(draw(trivial)))
        if form in ("trivial+default", "default"):
            v["default"] = draw(default)
        if form == "description":
            v["description"] = draw(st.sampled_from(["d", "another"]))
        if form == "keyword":
            v["minProperties"] = 1
        if form == "nontrivial-composition":
            v["anyOf"] = [{"minProperties": 1}, {"type": "null"}]
            if draw(st.booleans()):
                v["default"] = draw(default)
        return form, v

    forms, variants = zip(*[variant() for _ in range(draw(st.integers(2, 3)))])
    props = {}
    for i, v in enumerate(variants):
        where = draw(st.sampled_from(["prop", "prop", "items", "tuple"]))
        props["p%d" % i] = {"prop": v, "items": {"type": "array", "items": v},
                           "tuple": {"type": "array", "items": [{"type": "null"}, v]}}[where]
    doc = {"type": "object", "title": "Root", "properties": props}
    values = [{}, {"street": "s"}, {"class": "c"}, {"a-b": "x"}, {"street": 1}, {"zz": 1}, None, 5]
    return {"mode": "positions", "document": doc, "forms": list(forms), "values": values,
            "pipeline": draw(st.sampled_from(observe.PIPELINES))}


def _at(el, sub):
    """The element standing for the variant inside its holder property."""
    if sub.get("type") == "array":
        items = el.items
        return items[1] if isinstance(items, list) else items
    return el


def positions_predicate(case, stats):
    doc = case["document"]
    parsed = observe.safe_parse(doc, case.get("pipeline"))
    if parsed[0] != "ok":
        stats.case(canon(case), False, ["parse-refused"])
        return [{"sub": "parse", "kind": "parse-refused:" + str(parsed[1]), "detail": list(map(str, parsed))[:3]}]
    root = parsed[1]
    fails = []
    by_source = {(p.source if p.source is not None else n): p for n, p in root.properties.items()}
    found = []
    for name, sub in doc["properties"].items():
        variant = sub["items"][1] if isinstance(sub.get("items"), list) else sub.get("items", sub) if sub.get("type") == "array" else sub
        el = _at(by_source[name].element, sub)
        alone = observe.safe_parse(variant)  # an independent parse of exactly this sub-schema (plain call)
        if alone[0] != "ok":
            continue
        found.append((name, variant, el, alone[1]))
        try:
            same = (el == alone[1]) and (alone[1] == el)
        except Exception as exc:  # noqa: BLE001
            fails.append({"sub": "eq", "kind": "eq-raised:" + type(exc).__name__})
            continue
        if not same:
            fails.append({"sub": "positions", "kind": "position-unequal-to-independent-parse-of-its-schema",
                          "position": name, "in_document": repr(el)[:200], "alone": repr(alone[1])[:200],
                          "default_in_document": repr(getattr(el, "default", None))[:60],
                          "default_alone": repr(getattr(alone[1], "default", None))[:60]})
            continue
        for value in case["values"]:
            va, vb = observe.verdict(el, value), observe.verdict(alone[1], value)
            if va[0] != vb[0] or (va[0] == "ok" and not observe.plain_eq(observe.plain(va[1]), observe.plain(vb[1]))):
                fails.append({"sub": "positions", "kind": "position-behaves-unlike-independent-parse", "position": name,
                              "value": value, "detail": [str(va[0]), str(vb[0])]})
                break
    stats.case(canon(case), len(found) >= 2, ["mode:positions"] + ["form:" + f for f in set(case["forms"])],
               sample={"document": doc})
    return fails


def predicate(case, stats):
    if case.get("mode") == "positions":
        return positions_predicate(case, stats)
    a, b = build_pair(case)
    fails = []
    if b is None:
        stats.case(canon(case), False, ["parse-refused"])
        return []
    try:
        refl = (a == a) and (b == b)
        ab, ba = (a == b), (b == a)
    except Exception as exc:  # noqa: BLE001
        return [{"sub": "eq", "kind": "eq-raised:" + type(exc).__name__, "detail": str(exc)[:200]}]
    if refl is not True:
        fails.append({"sub": "eq", "kind": "not-reflexive"})
    if bool(ab) != bool(ba):
        fails.append({"sub": "eq", "kind": "not-symmetric", "detail": [str(ab), str(ba)]})
    if case["mode"] == "shared" and (ab or ba):
        fails.append({"sub": "eq", "kind": "equal-although-a-property-attribute-differs", "change": case["change"],
                      "property": case["a"]["props"][case["prop"]]["name"]})
    if case["mode"] == "inherit" and case.get("dropped") is None and not (ab and ba):
        fails.append({"sub": "eq", "kind": "subclass-unequal-to-its-flat-equivalent"})
    if case["mode"] == "same" and not (ab and ba):
        fails.append({"sub": "eq", "kind": "independent-builds-unequal"})
    if case.get("must_be_equal") and not (ab and ba):
        fails.append({"sub": "eq", "kind": "tree-unequal-to-itself-with-an-equal-class-substituted",
                      "mutation": case.get("mutation")})
    equal = bool(ab) and bool(ba)
    if equal:
        for value in case["values"]:
            va, vb = observe.verdict(a, value), observe.verdict(b, value)
            if va[0] != vb[0]:
                fails.append({"sub": "verdict", "kind": "equal-but-different-verdict", "value": value,
                              "detail": [va[0], vb[0]], "mutation": case.get("mutation")})
                break
        ja, jb = observe.ser_json(a), observe.ser_json(b)
        if ja[0] != jb[0]:
            fails.append({"sub": "json", "kind": "equal-but-serialisation-differs", "detail": [ja[0], jb[0]]})
        elif ja[0] == "ok":
            xa, xb = alpha(ja[1]), alpha(jb[1])
            if not json_eq(xa, xb):
                fails.append({"sub": "json", "kind": "equal-but-different-schema",
                              "detail": [canon(xa)[:600], canon(xb)[:600]], "mutation": case.get("mutation")})
    # compare -> reconfigure -> compare: equality must follow the current configuration
    if case["mode"] == "mutant" and not fails:
        idx_a, idx_b = R.index(case["a"]), R.index(case["b"])
        root_a, root_b = case["a"], case["b"]
        same_shape = (root_a.get("kind") == root_b.get("kind") and root_a.get("kind") not in ("Object", "Nothing")
                      and {k: v for k, v in root_a.items() if k != "kw"} == {k: v for k, v in root_b.items() if k != "kw"}
                      and root_a.get("kw") != root_b.get("kw"))
        if same_shape:
            from statham.schema.constants import NotPassed as _NP
            import copy as _copy

            kw_a, kw_b = root_a.get("kw", {}), root_b.get("kw", {})
            for k in set(kw_a) | set(kw_b):
                if k in kw_b:
                    if kw_a.get(k, "<absent>") != kw_b[k] or type(kw_a.get(k)) is not type(kw_b[k]):
                        setattr(a, k, _copy.deepcopy(kw_b[k]))
                else:
                    default = False if k == "uniqueItems" else _NP()
                    setattr(a, k, default)
            try:
                now = (a == b) and (b == a)
            except Exception as exc:  # noqa: BLE001
                now = False
            if not now:
                fails.append({"sub": "eq", "kind": "stale-equality-after-reconfiguration",
                              "mutation": case.get("mutation"), "detail": [repr(a)[:300], repr(b)[:300]]})
            a2 = R.build(case["a"])
            if bool(a2 == a) != bool(ab) or bool(a == a2) != bool(ab):
                fails.append({"sub": "eq", "kind": "stale-inequality-after-reconfiguration",
                              "mutation": case.get("mutation")})
            stats.classes["compare-reconfigure-compare"] += 1
    classes = ["mode:" + case["mode"], "equal" if equal else "unequal"]
    if case.get("mutation"):
        classes.append("mut:" + case["mutation"].split(":")[0] + (":equal" if equal else ""))
    stats.case(canon(case), equal or case["mode"] == "mutant", classes,
               sample={k: case[k] for k in ("mode", "a", "mutation") if k in case})
    return fails


replay_predicate = predicate


def run_shard(ctx, stats):
    strat = st.one_of(cases(), cases(), cases(), cases(), cases(), position_cases())
    return runner.hyp_run(ctx, stats, strat, predicate, BUDGET[ctx.tier])
