"""C10 - only validation and schema-parse errors escape; no crash on any JSON input."""
import copy
import signal

from hypothesis import strategies as st

from vlib import findings, observe, runner
from vlib import jsonvals as jv
from vlib import schemas as sg
from vlib.jsonvals import canon
from vlib.values_for import values_for

PID = "C10"
RULE = (
    "case = metaschema-valid schema from the Draft-6 grammar WIDENED with: ints up to +-10^400, floats "
    "+-1.797e308 / 5e-324 / 1e-300 / 1e300, tiny and huge multipleOf, integer-valued floats for count "
    "keywords, schema nesting up to 40 levels, property names from the dunder pool and with NUL, lone "
    "surrogates, astral, combining and bidi characters, built-in formats, objects with and without "
    "titles; x 4-7 values: schema-directed values plus extreme numbers, nesting up to 40, strings with "
    "odd Unicode up to 2000 chars, digit-heavy garbage for formats. Oracle: parse_element returns or "
    "raises a SchemaParseError subclass; a call returns or raises ValidationError / TypeError; "
    "anything else is a violation bucketed by (exception type, innermost statham frame); RecursionError "
    "is counted inconclusive; a case exceeding 20 s is re-run alone with a 120 s limit and only a "
    "second timeout is reported. One shard additionally drives a LONG CALL HISTORY (1600 / 6000 distinct "
    "strings, each twice, then the first 50 again) through the process-wide built-in date-time and uuid "
    "checkers, same oracle. non-trivial = case containing >=1 widened feature; distinct = "
    "canon(schema, value)"
)
RULE += (
    " Widening also swaps patterns / patternProperties keys for regexes using look-behind, look-ahead, named groups, back-references, lazy quantifiers and inline flags (all valid for Python's re)."
)
RULE += (
    ' Round 9: an eighth of the schema nodes gets a keyword the vocabulary does not know whose NAME means something on the Python side (self, cls, args, kwargs, name, value, annotation, __init__, __class__, ...), with an arbitrary JSON value.'
)
RULE += (
    ' Round 10: count keywords also take 10**400 and 2**1024 (integers no float can hold); boolean documents go through the documented loader as well.'
)
ASSUMPTIONS = [
    "patterns come from a pool of valid Python regexes without nested quantifiers",
    "nesting depth <= 40 keeps the harness and the library far from the 1000-frame interpreter limit",
    "the hang detector is a clock used as a signal only after two confirmations (20 s, then 120 s; normal cases take < 50 ms)",
]
BUDGET = {"quick": 450, "thorough": 4500}

observe.register_formats()
BIG = 10 ** 400
EXTREME_NUMS = [BIG, -BIG, 2 ** 63, -2 ** 63, 2 ** 53 + 1, 1.7976931348623157e308, -1.7976931348623157e308,
                5e-324, 1e-300, 1e300, -1e300, 0.1, 1e16, 10 ** 22, 0, -0.0]
EXTREME_MULT = [1e-300, 1e300, 5e-324, 10 ** 400, 0.1, 1e-10, 3, 0.5, 2 ** 70]
ODD_STRINGS = ["\x00", "a\x00b", "\ud800", "\udc00x", "\U0001f600", "é", "‮abc", "‍", "﻿",
               "9" * 30, "9" * 400, "1" * 2000, "a" * 2000, "2020-01-01T00:00:00+99:99", "0" * 50 + "-01-01",
               "99999999999999999999999999-01-01T00:00:00Z", "12345678" * 4, "{" + "1" * 36 + "}",
               "urn:uuid:" + "f" * 32, "-" * 36, "1e400", "٣٣٣٣-٠١-٠١", "\n", " " * 100, "Infinity", "nan",
               "2020-13-01T00:00:00Z", "2020-00-10T00:00:00Z", "2020-02-30T25:61:61Z", "2020-12-32T23:59:60+24:00",
               "0000-00-00T00:00:00Z", "9999-99-99T99:99:99Z", "2020-01-01T00:00:00+99:99", "2020-1-1T0:0:0Z",
               "00000000-0000-0000-0000-000000000000", "{12345678-1234-5678-1234-567812345678}",
               "urn:uuid:12345678-1234-5678-1234-567812345678", "1234567812345678123456781234567g"]
# every construct of Python's `re` syntax the small pattern pool of the grammar never uses (all valid, none with
# nested quantifiers): look-behind/-ahead, named groups and back-references, lazy quantifiers, inline flags, escapes
RICH_PATTERNS = ["(?<=a)b", "(?<!a)b", "(?<=^)a", "a(?=b)", "a(?!b)", "(?P<n>a)(?P=n)", "(a)\\1", "a*?b", "(?i)ABC",
                 "\\d+\\s*\\w", "[\\]\\[]", "\\Aab\\Z", "(?:a|b){1,2}", "\\bfoo\\b", "\u00e9", "[^\\W\\d_]",
                 "^\\$ref$", "\\.", "(?s).", "(?x) a b ", "(?#comment)a", "[a-z&&[^b]]", "\\N{BULLET}", "(?a:\\w)",
                 "a{2}", "a{,2}", "{", "a{", "(?<=ab)c|(?<!x)y", "\\t\\n", "\t"]
DUNDER = ["__dict__", "__weakref__", "__class__", "__module__", "__slots__", "__init__", "__new__",
          "__doc__", "__getitem__", "__eq__", "__hash__", "_dict", "properties", "default", "self",
          "\x00", "\ud800", "a\U0001f600", "‮", "", " ", "é"]

def _compat(word, i):
    """Replace the i-th ASCII letter by its fullwidth twin (NFKC folds it back)."""
    j = i % len(word)
    c = word[j]
    if not (c.isascii() and c.isalpha()):
        return word
    return word[:j] + chr(ord(c) + 0xFEE0) + word[j + 1:]


DUNDER += [_compat(w, i) for i, w in enumerate(["class", "elif", "_dict", "__init__", "None", "import", "__class__",
                                                  "lambda", "__dict__", "def", "__weakref__", "yield"])]
DUNDER += ["cla\u017fs", "\uff3f\uff3finit__", "de\uff46"]
# names that mean something to str.format / % formatting (they end up inside error messages)
DUNDER += ["{id}", "{0}", "{", "}", "/users/{id}", "%s", "%(x)s", "{!r}", "{0.__class__}", "{{}}", "{name!z}"]


@st.composite
def wide_values(draw, depth=0):
    r = draw(st.integers(0, 9))
    if r <= 2:
        return draw(st.sampled_from(EXTREME_NUMS))
    if r <= 5:
        return draw(st.sampled_from(ODD_STRINGS))
    if r == 6 and depth == 0:
        k = draw(st.integers(5, 40))
        v = draw(st.sampled_from([1, "a", None, BIG]))
        kind = draw(st.sampled_from(["list", "dict", "mixed"]))
        for i in range(k):
            if kind == "list" or (kind == "mixed" and i % 2):
                v = [v]
            else:
                v = {draw(st.sampled_from(["a", "__dict__", "class", "\x00"])): v}
        return v
    if r == 7:
        return {draw(st.sampled_from(DUNDER)): draw(st.sampled_from(EXTREME_NUMS + ODD_STRINGS[:6])),
                draw(st.sampled_from(["a", "b", "class"])): draw(jv.scalars)}
    if r == 8:
        return [draw(st.sampled_from(EXTREME_NUMS)), draw(st.sampled_from(ODD_STRINGS)), draw(jv.scalars)]
    return draw(jv.json_values(max_leaves=5))


UNKNOWN_KEYWORDS = ["self", "self", "cls", "args", "kwargs", "mcs", "name", "value", "property_", "state", "element", "elements",
                    "x-vendor", "readOnly", "$comment", "__init__", "__class__", "__dict__", "annotation", "validators",
                    "type_", "python", "source", "parent"]


def widen(draw, schema, flags, depth=0):
    """Randomly replace parts of a schema with extreme variants (in place on a copy)."""
    if not isinstance(schema, dict) or depth > 6:
        return schema
    s = schema
    for kw in ("minimum", "maximum", "exclusiveMinimum", "exclusiveMaximum"):
        if kw in s and draw(st.integers(0, 2)) == 0:
            s[kw] = draw(st.sampled_from(EXTREME_NUMS))
            flags.add("extreme-bound")
    if "multipleOf" in s and draw(st.integers(0, 1)) == 0:
        s["multipleOf"] = draw(st.sampled_from(EXTREME_MULT))
        flags.add("extreme-multipleOf")
    for kw in ("minLength", "maxLength", "minItems", "maxItems", "minProperties", "maxProperties"):
        if kw in s and draw(st.integers(0, 3)) == 0:
            # (10 ** 400 does not fit a float: formatting or comparing it as one overflows)
            s[kw] = draw(st.sampled_from([float(s[kw]), 10 ** 30, 10 ** 400, 2 ** 1024, 2.0, 0.0]))
            flags.add("float-or-huge-count")
    if "format" in s and draw(st.booleans()):
        s["format"] = draw(st.sampled_from(["uuid", "date-time"]))
        flags.add("builtin-format")
    if "pattern" in s and draw(st.integers(0, 1)) == 0:
        s["pattern"] = draw(st.sampled_from(RICH_PATTERNS))
        flags.add("rich-regex")
    if isinstance(s.get("patternProperties"), dict) and s["patternProperties"] and draw(st.integers(0, 1)) == 0:
        old = draw(st.sampled_from(sorted(s["patternProperties"])))
        new = draw(st.sampled_from(RICH_PATTERNS))
        if new not in s["patternProperties"]:
            s["patternProperties"][new] = s["patternProperties"].pop(old)
            flags.add("rich-regex")
    if "properties" in s and draw(st.integers(0, 2)) == 0:
        name = draw(st.sampled_from(DUNDER))
        s["properties"][name] = draw(st.sampled_from([{}, {"type": "integer"}, {"type": "number"}, True]))
        flags.add("odd-property-name")
    if draw(st.integers(0, 5)) == 0 and s.get("type", "object") == "object":
        # the same odd names as REQUIRED keys / dependency keys (missing ones are named in error messages)
        name = draw(st.sampled_from(DUNDER))
        how = draw(st.sampled_from(["required", "required", "dependencies-list", "dependencies-key"]))
        if how == "required":
            s["required"] = list(s.get("required", [])) + ([name] if name not in s.get("required", []) else [])
        elif how == "dependencies-list":
            s.setdefault("dependencies", {}).setdefault("a", [name])
        else:
            s.setdefault("dependencies", {}).setdefault(name, ["b"])
        flags.add("odd-required-name")
    if draw(st.integers(0, 7)) == 0:
        # a keyword the vocabulary does not know (any value is metaschema-valid there; it must be ignored) whose NAME
        # means something on the Python side: parameter names, attribute names, dunders
        s[draw(st.sampled_from(UNKNOWN_KEYWORDS))] = draw(st.sampled_from([1, "s", None, {}, [1], True, {"type": "nope"}]))
        flags.add("unknown-keyword")
    if "enum" in s and draw(st.integers(0, 3)) == 0:
        s["enum"] = s["enum"] + [draw(st.sampled_from(EXTREME_NUMS + ODD_STRINGS[:8]))]
        flags.add("extreme-literal")
    if "title" in s and draw(st.integers(0, 5)) == 0:
        if draw(st.booleans()):
            del s["title"]
        else:
            s["title"] = draw(st.sampled_from(["", "\x00", "\ud800", "123", "日本", "a" * 300, "None", "__class__"]))
        flags.add("odd-or-missing-title")
    if "title" in s and draw(st.integers(0, 7)) == 0:
        # many "_<digits>" groups that are NOT at the end (the de-duplication suffix is recognised by a regex)
        k = draw(st.sampled_from([8, 24, 48, 200]))
        s["title"] = draw(st.sampled_from(["mask", "Foo", ""])) + "_1" * k + draw(st.sampled_from(["_flags", "x", " ", "_", "_0a"]))
        flags.add("suffix-heavy-title")
    for k, v in list(s.items()):
        if k in ("properties", "patternProperties", "dependencies") and isinstance(v, dict):
            for kk in list(v):
                v[kk] = widen(draw, v[kk], flags, depth + 1)
        elif k in ("anyOf", "oneOf", "allOf") or (k == "items" and isinstance(v, list)):
            s[k] = [widen(draw, x, flags, depth + 1) for x in v]
        elif k in ("items", "additionalItems", "additionalProperties", "contains", "propertyNames", "not"):
            s[k] = widen(draw, v, flags, depth + 1)
    return s


@st.composite
def cases(draw):
    schema = copy.deepcopy(draw(sg.schemas(sg.Cfg(depth=3, unique_titles=True))))
    flags = set()
    base_values = draw(values_for(schema, 2, 3)) if isinstance(schema, dict) else []
    if isinstance(schema, dict):
        if draw(st.integers(0, 3)) == 0:
            kw = draw(st.sampled_from(["type-number", "type-integer", "multipleOf", "format", "minimum"]))
            if kw.startswith("type-"):
                schema.setdefault("type", kw[5:])
            elif kw == "multipleOf":
                schema["multipleOf"] = draw(st.sampled_from(EXTREME_MULT))
                flags.add("extreme-multipleOf")
            elif kw == "format":
                schema["format"] = draw(st.sampled_from(["uuid", "date-time"]))
                flags.add("builtin-format")
            else:
                schema["minimum"] = draw(st.sampled_from(EXTREME_NUMS))
                flags.add("extreme-bound")
        schema = widen(draw, schema, flags)
    if draw(st.integers(0, 5)) == 0:
        k = draw(st.integers(5, 40))
        for i in range(k):
            kind = draw(st.sampled_from(["items", "properties", "anyOf", "not", "additionalProperties", "contains"]))
            if kind == "properties":
                schema = {"properties": {"a": schema}}
            elif kind == "anyOf":
                schema = {"anyOf": [schema]}
            else:
                schema = {kind: schema}
        flags.add("deep-schema")
    values = base_values + [draw(wide_values()) for _ in range(draw(st.integers(2, 4)))]
    if "odd-required-name" in flags:
        values += [{}, {"a": 1}, [{}], {"a": {}}]
    return {"schema": schema, "values": values, "flags": sorted(flags),
            "pipeline": draw(st.sampled_from(observe.PIPELINES))}


class Hang(Exception):
    pass


def _alarm(signum, frame):
    raise Hang()


def with_limit(seconds, fn):
    old = signal.signal(signal.SIGALRM, _alarm)
    signal.setitimer(signal.ITIMER_REAL, seconds)
    try:
        return fn()
    finally:
        signal.setitimer(signal.ITIMER_REAL, 0)
        signal.signal(signal.SIGALRM, old)


def evaluate(case, stats):
    schema, values = case["schema"], case["values"]
    fails = []
    parsed = observe.safe_parse(schema, case.get("pipeline"))
    wide = bool(case.get("flags"))
    if parsed[0] == "recursion":
        stats.inconclusive["recursion-parse"] += 1
        return []
    if parsed[0] == "crash":
        stats.case(canon([schema]), wide, ["parse:crash"])
        return [{"sub": "parse", "kind": f"parse-raised:{parsed[1]}@{parsed[2].split(':')[0]}:{parsed[2].split(':')[1] if ':' in parsed[2] else ''}",
                 "detail": list(parsed)}]
    if parsed[0] != "ok":
        stats.case(canon([schema]), wide, ["parse:" + parsed[1]] + ["flag:" + f for f in case.get("flags", [])])
        return []
    element = parsed[1]
    for value in values:
        got = observe.verdict(element, value, check_input=False)
        cls = ["call:" + got[0]] + ["flag:" + f for f in case.get("flags", [])]
        try:
            key = canon([schema, value])
        except Exception:  # noqa: BLE001
            key = repr([schema, value])
        stats.case(key, True, cls, sample={"schema": schema, "value": repr(value)[:200]} if len(key) < 3000 else None)
        if got[0] == "recursion":
            stats.inconclusive["recursion-call"] += 1
        elif got[0] == "crash":
            where = got[2].split(": ")[0]
            fails.append({"sub": "call", "kind": f"call-raised:{got[1]}@{where}", "value": value, "detail": list(got)})
    return fails


def history_strings(n, salt):
    """Deterministic family of n distinct strings (garbage, near-misses and valid timestamps/uuids)."""
    out = []
    for i in range(n):
        k = (i * 2654435761 + salt) % 4294967296
        kind = k % 7
        if kind == 0:
            out.append(f"not a timestamp {i}")
        elif kind == 1:
            out.append(f"{1000 + k % 9000:04d}-{k % 14:02d}-{k % 33:02d}T{k % 25:02d}:{k % 61:02d}:{k % 62:02d}Z")
        elif kind == 2:
            out.append(f"{k:032x}"[:32])
        elif kind == 3:
            out.append(f"{k % 3000} days ago {i}")
        elif kind == 4:
            out.append("9" * (k % 40) + str(i))
        elif kind == 5:
            out.append(f"{2000 + k % 30}-01-{1 + k % 28:02d}T10:00:{k % 60:02d}+0{k % 10}:00")
        else:
            out.append(f"{k:08x}-{k % 65536:04x}-4{k % 4096:03x}-8{k % 4096:03x}-{k:012x}{i}")
    return out


def history_predicate(case, stats):
    """A long call history against the process-wide built-in format checkers (each string twice,
    early ones again at the end): every call must return or raise ValidationError/TypeError."""
    from statham.schema.elements import String

    fails = []
    for fmt in ("date-time", "uuid"):
        element = String(format=fmt)
        strings = history_strings(case["n"], case["salt"])
        sequence = [x for s_ in strings for x in (s_, s_)] + strings[:50]
        for i, value in enumerate(sequence):
            got = observe.verdict(element, value, check_input=False)
            if got[0] == "crash":
                fails.append({"sub": "history", "kind": f"call-raised:{got[1]}@{got[2].split(': ')[0]}",
                              "format": fmt, "call_index": i, "value": value})
                break
        stats.case(f"history:{fmt}:{case['n']}:{case['salt']}", True, ["format-history:" + fmt], n=len(sequence),
                   sample={"mode": "history", "format": fmt, "calls": len(sequence)})
    return fails


def parse_apart(schema, seconds=30):
    """Parse in a child process that can be KILLED: a regular-expression match that backtracks exponentially runs
    inside the C matcher and does not notice an alarm signal.  -> 'done' | 'hang'."""
    import json
    import os
    import subprocess
    import sys

    home = os.path.dirname(os.path.dirname(os.path.abspath(__file__)))
    code = ("import sys, json, warnings; warnings.simplefilter('ignore'); from vlib import repo; "
            "from statham.schema.parser import parse_element\n"
            "try:\n    parse_element(json.load(sys.stdin))\nexcept Exception:\n    pass\n")
    env = dict(os.environ, PYTHONPATH=os.pathsep.join([os.path.join(home, ".deps"), home]), PYTHONHASHSEED="0")
    try:
        subprocess.run([sys.executable, "-W", "ignore", "-c", code], input=json.dumps(schema).encode(), env=env,
                       cwd=home, stdout=subprocess.DEVNULL, stderr=subprocess.DEVNULL, timeout=seconds)
    except subprocess.TimeoutExpired:
        return "hang"
    except (TypeError, ValueError):
        return "done"  # not JSON-serialisable: nothing to send
    return "done"


def predicate(case, stats):
    if case.get("mode") == "history":
        return history_predicate(case, stats)
    if "suffix-heavy-title" in (case.get("flags") or []):
        stats.extra["parsed_in_child_process"] = stats.extra.get("parsed_in_child_process", 0) + 1
        if parse_apart(case["schema"]) == "hang":
            stats.case(canon([case["schema"]]), True, ["flag:suffix-heavy-title", "parse:hang"])
            return [{"sub": "termination", "kind": "parse-does-not-return-within-30s (child process killed)"}]
    try:
        return with_limit(20, lambda: evaluate(case, stats))
    except Hang:
        stats.classes["hang-candidate"] += 1
    try:
        with_limit(120, lambda: evaluate(case, runner.Stats()))
    except Hang:
        return [{"sub": "termination", "kind": "no-result-within-120s (second confirmation)"}]
    stats.inconclusive["slow-but-terminating"] += 1
    return []


replay_predicate = predicate


ATHERIS_RUNS = 12000  # per campaign; 4 campaigns (shards 0-3) in the thorough tier


def atheris_campaign(ctx, stats):
    """Thorough tier only: coverage-guided libFuzzer over the same test (vlib/c10_atheris.py)."""
    import json
    import os
    import subprocess
    import sys
    import tempfile

    out = tempfile.mktemp(prefix="c10_atheris_", suffix=".json")
    env = dict(os.environ)
    p = subprocess.run([sys.executable, "-W", "ignore", "-m", "vlib.c10_atheris", str(ATHERIS_RUNS),
                        str(ctx.derived(5) % 2 ** 31 or 1), out], cwd=findings.HOME, env=env,
                       stdout=subprocess.PIPE, stderr=subprocess.STDOUT, timeout=3 * 3600)
    result = {}
    if os.path.exists(out):
        with open(out) as fh:
            result = json.load(fh)
        os.unlink(out)
    if p.returncode == 77 and result.get("status") == "violation":
        # replay through the plain predicate before reporting
        fails = predicate(result["case"], runner.Stats())
        unknown = runner.triage(PID, result["case"], fails, stats)
        stats.extra["atheris"] = {"violation_execs": result.get("execs", 0)}
        if unknown:
            return {"case": result["case"], "failures": unknown}
        stats.inconclusive["atheris-finding-not-reproduced"] += 1
        return None
    if p.returncode == 3:
        stats.extra["atheris_skipped"] = 1
        return None
    tail = p.stdout.decode(errors="replace")[-300:]
    if p.returncode != 0:
        stats.inconclusive["atheris-exit-%d" % p.returncode] += 1
        stats.extra["atheris_log_tail"] = {tail: 1}
        return None
    stats.extra["atheris_runs"] = ATHERIS_RUNS
    return None


def run_shard(ctx, stats):
    if ctx.shard == 15 or ctx.nshards < 16 and ctx.shard == ctx.nshards - 1:
        case = {"mode": "history", "n": 1600 if ctx.quick else 6000, "salt": ctx.derived(3) % 100000}
        fails = runner.triage(PID, case, history_predicate(case, stats), stats)
        if fails:
            return {"case": case, "failures": fails}
    failure = runner.hyp_run(ctx, stats, cases(), predicate, BUDGET[ctx.tier], limit=False)
    if failure or ctx.quick or ctx.shard >= 4:
        return failure
    return atheris_campaign(ctx, stats)
