"""Coverage-guided campaign for C10: atheris drives the same Hypothesis test through fuzz_one_input.

usage: python -m vlib.c10_atheris <runs> <seed> <out.json>
Exit 0: no violation; exit 77: violation (case written to out.json); exit 3: atheris unavailable.
The oracle (exception allow-list) lives inside the target: props.c10_robustness.evaluate.
"""
import json
import os
import sys
import tempfile

runs, seed, out_path = int(sys.argv[1]), int(sys.argv[2]), sys.argv[3]

try:
    import atheris
except Exception as exc:  # noqa: BLE001
    json.dump({"status": "atheris-unavailable", "detail": str(exc)[:200]}, open(out_path, "w"))
    sys.exit(3)

# statham must be imported for the first time inside instrument_imports (vlib.repo imports it too)
_repo_dir = os.path.realpath(os.environ.get("VERIF_REPO_DIR", "/repo"))
sys.path.insert(0, _repo_dir)

with atheris.instrument_imports(include=["statham"]):
    import statham  # noqa: F401
    import statham.schema.parser  # noqa: F401
    import statham.schema.elements  # noqa: F401
    import statham.schema.validation  # noqa: F401
    import statham.serializers  # noqa: F401

from vlib import repo  # noqa: E402,F401  (asserts statham comes from the tree under test)
from hypothesis import HealthCheck, given, settings  # noqa: E402

from props import c10_robustness as c10  # noqa: E402
from vlib import findings, runner  # noqa: E402

stats = runner.Stats()
state = {"execs": 0}


@settings(database=None, deadline=None, suppress_health_check=list(HealthCheck))
@given(c10.cases())
def target(case):
    state["execs"] += 1
    if state["execs"] % 250 == 0:
        json.dump({"status": "running", "execs": state["execs"], "evaluations": stats.evaluations,
                   "distinct": len(stats.nontrivial)}, open(out_path, "w"))
    fails = c10.evaluate(case, stats)
    unknown = [f for f in fails if not findings.classify(c10.PID, case, f)]
    if unknown:
        json.dump({"status": "violation", "case": runner._json_safe(case), "failures": runner._json_safe(unknown),
                   "execs": state["execs"]}, open(out_path, "w"))
        os._exit(77)


def one_input(data):
    target.hypothesis.fuzz_one_input(data)


corpus = tempfile.mkdtemp(prefix="c10_atheris_")
# Hypothesis needs a few hundred bytes to draw a whole case; short buffers are overruns that never reach
# the target.  Start from deterministic pseudo-random buffers (SHAKE of the seed) instead of an empty corpus.
import hashlib  # noqa: E402

for i in range(12):
    blob = hashlib.shake_256(f"{seed}:{i}".encode()).digest(1024 + 256 * i)
    with open(os.path.join(corpus, f"seed{i}"), "wb") as fh:
        fh.write(blob)
atheris.Setup([sys.argv[0], f"-runs={runs}", f"-seed={seed}", "-max_len=8192", "-len_control=0",
               "-print_final_stats=0", corpus], one_input)
try:
    atheris.Fuzz()
finally:
    pass
