"""Observation helpers over statham objects (public access paths only)."""
import copy
import traceback
import warnings

from vlib import repo  # noqa: F401  (sys.path)
from vlib.jsonvals import json_eq, canon

from statham.schema.constants import NotPassed
from statham.schema.elements import Element, Object
from statham.schema.elements.meta import ObjectMeta
from statham.schema.exceptions import (
    SchemaParseError,
    ValidationError,
    FeatureNotImplementedError,
    StathamError,
)
from statham.schema.parser import parse_element, parse
from statham.schema.validation.format import format_checker
from statham.serializers import serialize_json, serialize_python

NP = "<NotPassed>"


def register_formats():
    """Register the harness formats (idempotent, process-wide)."""
    from vlib.schemas import FORMAT_PREDICATES

    for name, pred in FORMAT_PREDICATES.items():
        format_checker.register(name)(pred)


def statham_frame(exc):
    """Innermost traceback frame that lies inside the statham package."""
    frames = traceback.extract_tb(exc.__traceback__)
    for fr in reversed(frames):
        if "/statham/" in fr.filename:
            return f"{fr.filename.split('/statham/')[-1]}:{fr.name}"
    return "?"


PIPELINES = ["plain", "plain", "plain", "labelled"]
LABELLED_SKIPS = [0]


def safe_parse(schema, pipeline=None):
    """parse_element on a deep copy. -> ('ok', element) | ('error', type, msg).

    pipeline="labelled": through the documented loader instead (see safe_parse_labelled); documents the
    loader cannot carry fall back to the plain call (counted in LABELLED_SKIPS)."""
    if pipeline == "labelled":
        out = safe_parse_labelled(schema)
        if out[0] != "skip":
            return out
        LABELLED_SKIPS[0] += 1
    try:
        with warnings.catch_warnings():
            warnings.simplefilter("ignore")
            return ("ok", parse_element(copy.deepcopy(schema)))
    except SchemaParseError as exc:
        return ("parse-error", type(exc).__name__, str(exc)[:200])
    except RecursionError:
        return ("recursion", "RecursionError", "")
    except Exception as exc:  # noqa: BLE001 - classified by the caller
        return ("crash", type(exc).__name__, f"{statham_frame(exc)}: {str(exc)[:200]}")


def _has_unaddressable(node):
    """Members json_ref_dict cannot address or would resolve: the "" key, and literal "$ref" strings."""
    if isinstance(node, dict):
        return "" in node or isinstance(node.get("$ref"), str) or any(_has_unaddressable(v) for v in node.values())
    return isinstance(node, list) and any(_has_unaddressable(v) for v in node)


def safe_parse_labelled(schema):
    """The DOCUMENTED loading pipeline on an in-memory document:
    parse(materialize(RefDict.from_uri(uri), context_labeller=title_labeller()))[0].

    -> ('ok', element) | ('skip', reason) | the error tuples of safe_parse.  'skip' = the dependency
    (json_ref_dict) cannot carry this document; nothing is concluded about statham."""
    from vlib import docs
    from statham.schema.parser import parse

    if not isinstance(schema, (dict, bool)) or _has_unaddressable(schema):
        return ("skip", "not-loadable-through-json_ref_dict")
    try:
        loaded = docs.materialized({"a.json": copy.deepcopy(schema)}, "a.json")
    except RecursionError:
        return ("skip", "recursion-in-loader")
    except Exception as exc:  # noqa: BLE001 - the loader is not statham
        return ("skip", "loader-error:" + type(exc).__name__)
    try:
        with warnings.catch_warnings():
            warnings.simplefilter("ignore")
            return ("ok", parse(loaded)[0])
    except SchemaParseError as exc:
        return ("parse-error", type(exc).__name__, str(exc)[:200])
    except RecursionError:
        return ("recursion", "RecursionError", "")
    except Exception as exc:  # noqa: BLE001 - classified by the caller
        return ("crash", type(exc).__name__, f"{statham_frame(exc)}: {str(exc)[:200]}")


def verdict(element, value, check_input=True, keep_warnings=False):
    """Call ``element(value)`` on a deep copy of value.

    -> ('ok', result) | ('reject', 'ValidationError'|'TypeError') |
       ('crash', ExcType, where) | ('mutated-input', ...)
    """
    arg = copy.deepcopy(value)
    try:
        if keep_warnings:
            result = element(arg)  # the caller records them
        else:
            with warnings.catch_warnings():
                warnings.simplefilter("ignore")
                result = element(arg)
    except ValidationError:
        out = ("reject", "ValidationError")
    except TypeError as exc:
        out = ("reject", "TypeError", statham_frame(exc))
    except RecursionError:
        out = ("recursion",)
    except Exception as exc:  # noqa: BLE001
        out = ("crash", type(exc).__name__, f"{statham_frame(exc)}: {str(exc)[:160]}")
    else:
        out = ("ok", result)
    if check_input and not _same(arg, value):
        return ("mutated-input", canon(value), _safe_canon(arg))
    return out


def _same(a, b):
    try:
        from vlib.jsonvals import json_identical

        return json_identical(a, b)
    except RecursionError:
        return True


def _safe_canon(v):
    try:
        return canon(v)
    except Exception:  # noqa: BLE001
        return repr(v)[:200]


def plain(result, depth=0):
    """JSON-ish view of a result obtained through public access only.

    Model instances become {"<class>": name, python-name: value for declared
    properties, json-name: value for the rest}.
    """
    if depth > 100:
        return "<deep>"
    if isinstance(result, NotPassed):
        return NP
    if isinstance(type(result), ObjectMeta):
        cls = type(result)
        out = {}
        for name in cls.properties:
            try:
                out[name] = plain(getattr(result, name), depth + 1)
            except AttributeError:
                out[name] = "<declared property not readable>"
        for key in result._dict:  # noqa: SLF001 - only to enumerate keys
            if key not in out:
                out[key] = plain(result[key], depth + 1)
        return out
    if isinstance(result, dict):
        return {k: plain(v, depth + 1) for k, v in result.items()}
    if isinstance(result, list):
        return [plain(v, depth + 1) for v in result]
    return result


def plain_eq(a, b):
    """json_eq extended with the NotPassed marker."""
    if a == NP or b == NP:
        return isinstance(a, str) and isinstance(b, str) and a == b
    if isinstance(a, list) and isinstance(b, list):
        return len(a) == len(b) and all(plain_eq(x, y) for x, y in zip(a, b))
    if isinstance(a, dict) and isinstance(b, dict):
        return set(a) == set(b) and all(plain_eq(a[k], b[k]) for k in a)
    return json_eq(a, b)


def plain_identical(a, b):
    """plain_eq, but numbers must have the same Python type too (5 is not 5.0): for two results that ought to be built
    in exactly the same way."""
    from vlib.jsonvals import json_identical

    if a == NP or b == NP:
        return isinstance(a, str) and isinstance(b, str) and a == b
    if isinstance(a, list) and isinstance(b, list):
        return len(a) == len(b) and all(plain_identical(x, y) for x, y in zip(a, b))
    if isinstance(a, dict) and isinstance(b, dict):
        return set(a) == set(b) and all(plain_identical(a[k], b[k]) for k in a)
    return json_identical(a, b)


def kind(v):
    """Collapse a verdict to 'ok' / 'reject' / other."""
    return v[0]


def ser_json(*elements, definitions=None):
    try:
        return ("ok", serialize_json(*elements, definitions=definitions))
    except SchemaParseError as exc:
        return ("parse-error", type(exc).__name__)
    except RecursionError:
        return ("recursion",)
    except Exception as exc:  # noqa: BLE001
        return ("crash", type(exc).__name__, f"{statham_frame(exc)}: {str(exc)[:160]}")


def ser_python(*elements):
    try:
        return ("ok", serialize_python(*elements))
    except SchemaParseError as exc:
        return ("parse-error", type(exc).__name__)
    except RecursionError:
        return ("recursion",)
    except Exception as exc:  # noqa: BLE001
        return ("crash", type(exc).__name__, f"{statham_frame(exc)}: {str(exc)[:160]}")


def deep_dump(element, seen=None, depth=0):
    """Deep attribute dump of every reachable element / property (no sharing)."""
    from statham.schema.property import _Property

    seen = seen if seen is not None else {}
    if depth > 60:
        return "<deep>"
    if isinstance(element, NotPassed):
        return NP
    if isinstance(element, _Property):
        return {
            "<prop>": True,
            "required": element.required,
            "source": element.source,
            "name": element.name,
            "element": deep_dump(element.element, seen, depth + 1),
        }
    if isinstance(element, Element):
        if id(element) in seen:
            return {"<seen>": seen[id(element)]}
        seen[id(element)] = len(seen)
        if isinstance(element, ObjectMeta):
            names = ["default", "const", "enum", "required", "description",
                     "minProperties", "maxProperties", "patternProperties",
                     "additionalProperties", "propertyNames", "dependencies"]
            out = {"<class>": element.__name__,
                   "<bases>": [b.__name__ for b in element.__mro__[1:-1]]}
            for n in names:
                out[n] = deep_dump(getattr(element, n, NotPassed()), seen, depth + 1)
            out["properties"] = deep_dump(dict(element.properties or {}), seen, depth + 1)
            return out
        out = {"<type>": type(element).__name__}
        for k, v in sorted(vars(element).items()):
            # public configuration only (plus the property dictionary): a private memo that a later
            # version of the library might keep is not part of "the element tree" - what it may not do
            # is change equality, repr, the serialisers, verdicts or results, which are checked directly
            if k.startswith("_") and k != "_properties":
                continue
            out[k] = deep_dump(v, seen, depth + 1)
        return out
    if isinstance(element, dict):
        return {str(k): deep_dump(v, seen, depth + 1) for k, v in element.items()}
    if isinstance(element, (list, tuple)):
        return [deep_dump(v, seen, depth + 1) for v in element]
    if isinstance(element, float):
        return repr(element)
    if isinstance(element, bool):
        return f"<bool {element}>"
    return element


def snapshot(*elements):
    """Every observable named by C08: repr, JSON, Python text, deep dump."""
    js = ser_json(*elements)
    return {
        "repr": [repr(e) for e in elements],
        "json": canon(js[1]) if js[0] == "ok" else list(js),
        "python": list(ser_python(*elements)),
        "dump": canon([deep_dump(e) for e in elements]),
    }


def snapshot_diff(a, b):
    return [k for k in a if a[k] != b[k]]
