"""Schema-directed value generation.

``values_for(S)`` mixes (a) a best-effort constructive sampler ``instance_of``,
(b) boundary perturbations of its output, (c) unconstrained JSON seeded with the
schema's literals.  The sampler may be wrong; the oracle judges.
"""
import copy
import re

from hypothesis import strategies as st

from vlib import jsonvals as jv

# pattern -> (matching examples, non-matching examples)
PATTERN_EXAMPLES = {
    "^a": (["a", "ab", "abc", "a-b", "aa"], ["b", "ba", "", "x1"]),
    "b$": (["b", "ab", "a-b", "bb"], ["a", "ba", "", "x"]),
    "^[0-9]+$": (["0", "12", "1"], ["", "a", "1x", "x1"]),
    "^.{2}$": (["ab", "ba", "12", "x1", "1x"], ["a", "", "abc"]),
    "a|b": (["a", "b", "ab", "xa", "class"], ["", "x", "12", "not"]),
    "^(foo|ba)$": (["foo", "ba"], ["fo", "bar", "", "a"]),
    "[^a]": (["b", "ab", "x", "12"], ["a", "aa", ""]),
    "x": (["x", "x1", "1x", "xa"], ["a", "", "12"]),
    "^$": ([""], ["a", " ", "ab"]),
    "-": (["a-b", "x-id", "-"], ["a_b", "ab", "", "x_id"]),
    "_": (["a_b", "x_id", "_"], ["a-b", "ab", ""]),
    " ": (["d e", " "], ["d_e", "ab", ""]),
    "^x-": (["x-id", "x-"], ["x_id", "ab", ""]),
    "[.]": (["k.v", "."], ["k_v", "ab", ""]),
}


def _int(v):
    try:
        return max(0, min(int(v), 8))
    except (TypeError, ValueError, OverflowError):
        return 0


def _type_candidates(schema):
    t = schema.get("type")
    if t is None:
        cands = []
        for kw, ty in (
            ("properties", "object"), ("required", "object"), ("patternProperties", "object"),
            ("additionalProperties", "object"), ("minProperties", "object"),
            ("maxProperties", "object"), ("dependencies", "object"), ("propertyNames", "object"),
            ("items", "array"), ("minItems", "array"), ("maxItems", "array"),
            ("uniqueItems", "array"), ("contains", "array"), ("additionalItems", "array"),
            ("minimum", "number"), ("maximum", "number"), ("multipleOf", "number"),
            ("exclusiveMinimum", "number"), ("exclusiveMaximum", "number"),
            ("minLength", "string"), ("maxLength", "string"), ("pattern", "string"),
            ("format", "string"),
        ):
            if kw in schema and ty not in cands:
                cands.append(ty)
        return cands or ["null", "boolean", "integer", "number", "string", "array", "object"]
    return t if isinstance(t, list) else [t]


def _search(pattern, name):
    try:
        return re.search(pattern, name) is not None
    except re.error:
        return False


def _merge(parts):
    """Approximate conjunction of schemas (good enough to aim values)."""
    out = {}
    for part in parts:
        for k, v in part.items():
            if k in ("properties", "patternProperties", "dependencies") and isinstance(v, dict):
                out[k] = {**out.get(k, {}), **v}
            elif k == "required" and isinstance(v, list):
                out[k] = list(out.get(k, [])) + [x for x in v if x not in out.get(k, [])]
            elif k == "type" and "type" in out and out["type"] != v:
                a = out["type"] if isinstance(out["type"], list) else [out["type"]]
                b = v if isinstance(v, list) else [v]
                common = [t for t in a if t in b] or (["integer"] if {"integer", "number"} <= set(a + b) else b)
                out[k] = common[0] if len(common) == 1 else common
            elif k in ("anyOf", "oneOf", "allOf") and k in out:
                out[k] = out[k] + v if k == "allOf" else out[k]
            else:
                out[k] = v
    return out


@st.composite
def instance_of(draw, schema, depth=0):
    """Try to build a value satisfying ``schema`` (best effort)."""
    if schema is True or schema == {}:
        return draw(jv.scalars)
    if schema is False:
        return draw(jv.scalars)
    if depth > 6:
        return draw(jv.scalars)
    s = schema
    if "const" in s and draw(st.integers(0, 9)) < 8:
        return copy.deepcopy(s["const"])
    if "enum" in s and draw(st.integers(0, 9)) < 8:
        return copy.deepcopy(draw(st.sampled_from(s["enum"])))
    if any(k in s for k in ("allOf", "anyOf", "oneOf")) and draw(st.integers(0, 3)) > 0:
        # satisfy the composition: all allOf branches, one anyOf/oneOf branch, merged with siblings
        parts = [b for b in s.get("allOf", []) if isinstance(b, dict)]
        for kw in ("anyOf", "oneOf"):
            if kw in s:
                branch = draw(st.sampled_from(s[kw]))
                if isinstance(branch, dict):
                    parts.append(branch)
        parts.append({k: v for k, v in s.items() if k not in ("anyOf", "oneOf", "allOf", "not")})
        return draw(instance_of(_merge(parts), depth + 1))
    ty = draw(st.sampled_from(_type_candidates(s)))
    if ty == "null":
        return None
    if ty == "boolean":
        return draw(st.booleans())
    if ty in ("integer", "number"):
        lo = s.get("minimum", s.get("exclusiveMinimum"))
        hi = s.get("maximum", s.get("exclusiveMaximum"))
        mult = s.get("multipleOf")
        choices = []
        for b in (lo, hi):
            if b is not None:
                choices += [b, b + 1, b - 1, b + 0.5]
        if mult:
            k = draw(st.integers(-4, 4))
            choices += [mult * k, mult * k + (lo or 0)]
        if not choices:
            return draw(jv.ints if ty == "integer" else jv.numbers)
        v = draw(st.sampled_from(choices))
        if ty == "integer" and isinstance(v, float) and v == int(v) and draw(st.booleans()):
            v = int(v)
        return v
    if ty == "string":
        pool = list(jv.STRS)
        if "pattern" in s and s["pattern"] in PATTERN_EXAMPLES:
            good, bad = PATTERN_EXAMPLES[s["pattern"]]
            pool = good * 3 + bad
        if "minLength" in s or "maxLength" in s:
            lo, hi = _int(s.get("minLength", 0)), _int(s.get("maxLength", 6))
            sized = [x for x in pool if lo <= len(x) <= hi]
            if sized and draw(st.integers(0, 3)) > 0:
                pool = sized
            pool = pool + ["a" * lo, "a" * max(hi, 0), "a" * (hi + 1), "ab" * lo]
            # Draft 6 counts CHARACTERS (code points): strings whose count differs from their UTF-16 / UTF-8 /
            # normalised length, exactly at and next to the limits
            for n in {lo, max(hi, 0), hi + 1, max(lo - 1, 0)}:
                pool += jv.counted_strings(n)
        return draw(st.sampled_from(pool))
    if ty == "array":
        items = s.get("items", True)
        lo = _int(s.get("minItems", 0))
        hi = _int(s.get("maxItems", max(lo, 3)))
        n = draw(st.integers(min(lo, 4), max(min(hi, 4), min(lo, 4))))
        if isinstance(items, list) and draw(st.integers(0, 3)) > 0:
            # lengths around the tuple boundary: additionalItems applies from len(items) on
            n = draw(st.sampled_from([max(len(items) - 1, 0), len(items), len(items), len(items) + 1,
                                      len(items) + 2]))
        if s.get("uniqueItems") and draw(st.integers(0, 3)) == 0:
            # duplicates that differ only in the ORDER of object members (at any depth)
            base = draw(instance_of(items if isinstance(items, dict) else {}, depth + 1))
            if not (isinstance(base, (dict, list)) and jv.reordered(base) is not None):
                base = draw(st.sampled_from([{"a": 1, "b": 2}, {"a": {"x": 1, "y": [2]}, "b": None}, [{"k": 1, "l": 2}]]))
            return [base, draw(jv.scalars), jv.reordered(base)][:draw(st.integers(2, 3))][::draw(st.sampled_from([1, -1]))] \
                if draw(st.booleans()) else [base, jv.reordered(base)]
        if s.get("uniqueItems") and items in (True, {}) and draw(st.booleans()):
            # uniqueness over nested containers and bool/number lookalikes at depth
            pool = [[1], [True], [1.0], [[1]], [[True]], [[1], [2]], [[[1]]], [[[2]]], {"a": 1}, {"a": True},
                    {"a": [1]}, {"a": [True]}, [], {}, [[]], [{}], 0, False, [0], [False], [[0, 1]], [[False, True]]]
            return draw(st.lists(st.sampled_from(pool), min_size=min(lo, 4), max_size=4)).copy()
        out = []
        for i in range(n):
            if isinstance(items, list):
                if i < len(items):
                    sub = items[i]
                else:
                    sub = s.get("additionalItems", True)
            else:
                sub = items
            if isinstance(sub, bool):
                sub = {}
            out.append(draw(instance_of(sub, depth + 1)))
        if "contains" in s and isinstance(s["contains"], dict) and draw(st.booleans()):
            # the satisfying item comes last, sometimes after several fillers that do NOT satisfy it
            if draw(st.booleans()):
                from vlib import ref6

                sub = items if isinstance(items, dict) else {}
                fillers = [draw(instance_of(sub, depth + 1)) for _ in range(draw(st.integers(3, 4)))]
                try:
                    fillers = [x for x in fillers if ref6.validate(s["contains"], x) is False]
                except Exception:  # noqa: BLE001 - aiming only
                    fillers = []
                if len(fillers) >= 3:
                    out = fillers
            out.append(draw(instance_of(s["contains"], depth + 1)))
        return out
    if ty == "object":
        props = s.get("properties", {})
        required = list(s.get("required", []))
        out = {}
        names = list(props)
        for name in names:
            if name in required or draw(st.integers(0, 2)) > 0:
                sub = props[name]
                sub = sub if isinstance(sub, dict) else {}
                # a declared name is ALSO governed by every pattern it matches: aim at the conjunction, or at
                # the property schema plus only some of the patterns (so that a later pattern is violated)
                matching = [ps for pat, ps in sorted((s.get("patternProperties") or {}).items())
                            if isinstance(ps, dict) and ps and _search(pat, name)]
                if matching:
                    how = draw(st.integers(0, 3))
                    if how == 1:
                        sub = _merge([sub] + matching)
                    elif how == 2:
                        sub = _merge([sub] + matching[:1])
                    elif how == 3:
                        sub = _merge(matching[-1:] + [sub])
                out[name] = draw(instance_of(sub, depth + 1))
        for name in required:
            if name not in out:
                # an undeclared required key is governed by the patterns it matches / additionalProperties
                governing = [ps for pat, ps in sorted((s.get("patternProperties") or {}).items())
                             if isinstance(ps, dict) and _search(pat, name)]
                if governing and draw(st.booleans()):
                    out[name] = draw(instance_of(_merge(governing), depth + 1))
                elif isinstance(s.get("additionalProperties"), dict) and not governing and draw(st.booleans()):
                    out[name] = draw(instance_of(s["additionalProperties"], depth + 1))
                else:
                    out[name] = draw(jv.scalars)
        if s.get("dependencies") and draw(st.booleans()):
            # trigger the dependencies (all of them together, or one)
            keys = sorted(s["dependencies"])
            for key in (keys if draw(st.booleans()) else [draw(st.sampled_from(keys))]):
                out.setdefault(key, draw(jv.scalars))
        for key, dep in (s.get("dependencies") or {}).items():
            if key in out and isinstance(dep, list):
                for d in dep:
                    out.setdefault(d, draw(jv.scalars))
        if s.get("patternProperties") and draw(st.booleans()):
            pat = draw(st.sampled_from(sorted(s["patternProperties"])))
            if pat in PATTERN_EXAMPLES:
                key = draw(st.sampled_from(PATTERN_EXAMPLES[pat][0]))
                sub = s["patternProperties"][pat]
                out[key] = draw(instance_of(sub if isinstance(sub, dict) else {}, depth + 1))
        extra = s.get("additionalProperties", True)
        if extra is not False and draw(st.integers(0, 2)) == 0:
            key = draw(jv.keys)
            if key not in out:
                out[key] = draw(instance_of(extra if isinstance(extra, dict) else {}, depth + 1))
        lo = _int(s.get("minProperties", 0))
        while len(out) < lo and len(out) < 5:
            key = draw(st.sampled_from(["d", "e", "f", "g", "h", "a", "b"]))
            out.setdefault(key, draw(jv.scalars))
        return out
    return draw(jv.scalars)


@st.composite
def perturb(draw, value, depth=0):
    """One boundary-aimed edit somewhere in ``value``."""
    v = copy.deepcopy(value)
    if isinstance(v, (list, dict)) and len(v) and depth < 4 and draw(st.integers(0, 2)) > 0:
        # descend
        if isinstance(v, list):
            i = draw(st.integers(0, len(v) - 1))
            v[i] = draw(perturb(v[i], depth + 1))
        else:
            k = draw(st.sampled_from(sorted(v)))
            v[k] = draw(perturb(v[k], depth + 1))
        return v
    if isinstance(v, bool):
        return draw(st.sampled_from([int(v), float(v), not v]))
    if jv.is_num(v):
        opts = [v + 1, v - 1, v + 0.5, -v]
        if v in (0, 1):
            opts.append(bool(v))
        if isinstance(v, int):
            opts.append(float(v))
        elif v == int(v):
            opts.append(int(v))
        return draw(st.sampled_from(opts))
    if isinstance(v, str):
        return draw(st.sampled_from([v + "a", v[:-1], "b" + v, v + "1", "", v.upper()]))
    if v is None:
        return draw(st.sampled_from([False, 0, "", [], {}]))
    if isinstance(v, list):
        op = draw(st.integers(0, 4))
        if op == 0 and v:
            return v[:-1]
        if op == 1:
            return v + [draw(jv.scalars)]
        if op == 2 and v:
            i = draw(st.integers(0, len(v) - 1))
            dup = copy.deepcopy(v[i])
            alts = jv.lookalike(dup)
            if alts and draw(st.booleans()):
                dup = draw(st.sampled_from(alts))
            elif draw(st.booleans()):
                # the same JSON value with its object members written in the opposite order (objects are unordered)
                dup = jv.reordered(dup)
            return v + [dup]
        if op == 3 and len(v) > 1:
            return list(reversed(v))
        return {"a": v} if draw(st.booleans()) else (v[0] if v else None)
    if isinstance(v, dict):
        op = draw(st.integers(0, 5))
        if op == 5 and v:
            # drop the first member (required / declared properties are generated first)
            del v[next(iter(v))]
            return v
        if op == 0 and v:
            k = draw(st.sampled_from(sorted(v)))
            del v[k]
            return v
        if op == 1:
            v[draw(jv.keys)] = draw(jv.scalars)
            return v
        if op == 2 and v:
            k = draw(st.sampled_from(sorted(v)))
            v[draw(jv.keys)] = v.pop(k)
            return v
        if op == 3:
            return [v]
        v[draw(st.sampled_from(["a", "b", "ab", "12", "x"]))] = draw(jv.scalars)
        return v
    return v


@st.composite
def without_one_member(draw, value, depth=0):
    """The value with ONE member removed somewhere (a required one, with luck): such a value must be rejected, not
    half-built - wherever the object that misses it sits."""
    v = value
    if isinstance(v, dict) and v:
        keys = sorted(v, key=str)
        k = keys[draw(st.integers(0, len(keys) - 1))]
        if depth < 3 and isinstance(v[k], (dict, list)) and v[k] and draw(st.booleans()):
            return {**v, k: draw(without_one_member(v[k], depth + 1))}
        return {kk: vv for kk, vv in v.items() if kk != k}
    if isinstance(v, list) and v:
        i = draw(st.integers(0, len(v) - 1))
        return v[:i] + [draw(without_one_member(v[i], depth + 1))] + v[i + 1:]
    return v


@st.composite
def values_for(draw, schema, n_min=3, n_max=6):
    """A list of values aimed at ``schema``: both verdicts, boundaries."""
    lits = jv.literals_of(schema)[:20]
    n = draw(st.integers(n_min, n_max))
    out = []
    sdict = schema if isinstance(schema, dict) else {}
    for _ in range(n):
        r = draw(st.integers(0, 19))
        if r < 10:
            out.append(draw(instance_of(sdict)))
        elif r < 17:
            out.append(draw(perturb(draw(instance_of(sdict)))))
        else:
            out.append(draw(jv.json_values(extra=lits or None, max_leaves=6)))
    return out
