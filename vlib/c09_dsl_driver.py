"""Subprocess driver for C09 (models declared with the DSL): digests of what the serializers emit for each recipe.

usage: python c09_dsl_driver.py <verif_dir> <repo_dir> <recipes.json> [reverse]
prints one JSON list: [{"json": sha, "python": sha}, ...] in the order of the file
"""
import hashlib
import json
import os
import sys

verif_dir, repo_dir, path = sys.argv[1], sys.argv[2], sys.argv[3]
os.environ["VERIF_REPO_DIR"] = repo_dir
sys.path[:0] = [repo_dir, verif_dir, os.path.join(verif_dir, ".deps")]

from vlib import observe, recipes as R  # noqa: E402


def sha(text):
    return hashlib.sha256(text.encode("utf8", "surrogatepass")).hexdigest()[:20]


def digest(result):
    if result[0] != "ok":
        return ":".join(str(x) for x in result[:2])
    return sha(result[1] if isinstance(result[1], str) else json.dumps(result[1]))


todo = list(enumerate(json.load(open(path))))
if len(sys.argv) > 4 and sys.argv[4] == "reverse":
    todo.reverse()
out = {}
for i, recipe in todo:
    try:
        element = R.build(recipe)
    except Exception as exc:  # noqa: BLE001
        out[i] = {"build": "raised:" + type(exc).__name__}
        continue
    out[i] = {"json": digest(observe.ser_json(element)), "python": digest(observe.ser_python(element))}
print(json.dumps([out[i] for i in sorted(out)]))
