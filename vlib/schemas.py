"""Draft-6 schema grammar (metaschema-valid by construction).

``schemas(cfg)`` draws a schema as plain JSON.  Each schema draws an independent
subset of keyword *groups*; sub-schemas recurse with decreasing depth.
"""
import copy

from hypothesis import strategies as st

from vlib import jsonvals as jv

SIMPLE_TYPES = ["null", "boolean", "integer", "number", "string", "array", "object"]

# Patterns on which ECMA-262 and Python ``re`` agree for the generated strings.
PATTERNS = ["^a", "b$", "^[0-9]+$", "^.{2}$", "a|b", "^(foo|ba)$", "[^a]", "x", "^$", "-", "_", " "]

# Property names with pairwise distinct Python images; includes names that need
# translation (keyword, leading digit, punctuation, reserved dunder).
OVERLAP_FAMILIES = [
    [{"type": "string"}, {"minLength": 2}, {"maxLength": 4}, {"pattern": "^a"}],
    [{"type": "number"}, {"minimum": 0}, {"maximum": 10}, {"multipleOf": 2}],
    [{"type": "array"}, {"minItems": 1}, {"maxItems": 2}, {"uniqueItems": True}],
    [{}, {"type": ["string", "integer"]}, {"enum": ["ab", 1, 2, None]}, {"not": {"const": 1}}],
    [{"minProperties": 1}, {"required": ["a"]}, {"maxProperties": 1}, {"additionalProperties": {"type": "integer"}}],
]
PROP_NAMES = ["a", "b", "c", "ab", "a-b", "class", "not", "x1", "1x", "$id", "__init__"]

TITLES = ["Foo", "Bar", "my title", "a1b"]

# Harness formats (registered by vlib.observe.register_formats) + unregistered.
FORMATS = ["vf-even-len", "vf-has-a", "vf-unregistered", "vf-unknown-2"]
FORMAT_PREDICATES = {
    "vf-even-len": lambda s: len(s) % 2 == 0,
    "vf-has-a": lambda s: "a" in s,
}


COUNT_KEYWORDS = ("minLength", "maxLength", "minItems", "maxItems", "minProperties", "maxProperties")


class Cfg:
    """Generator switches (exclusion by construction is done here)."""

    def __init__(
        self,
        depth=3,
        defaults=True,
        formats=True,
        nested_bool_literals=True,
        titles=None,
        prop_names=None,
        object_bias=False,
        unique_titles=False,
        required_undeclared=True,
        descriptions=False,
        falsy_composition_default=True,
        degenerate=True,
    ):
        self.degenerate = degenerate
        self.depth = depth
        self.defaults = defaults
        self.formats = formats
        self.nested_bool_literals = nested_bool_literals
        self.titles = titles or TITLES
        self.prop_names = prop_names or PROP_NAMES
        self.object_bias = object_bias
        self.unique_titles = unique_titles
        self.required_undeclared = required_undeclared
        self.descriptions = descriptions
        self.falsy_composition_default = falsy_composition_default


def _has_nested_bool(v, depth=0):
    if isinstance(v, list):
        return any(isinstance(x, bool) or _has_nested_bool(x) for x in v)
    if isinstance(v, dict):
        return any(isinstance(x, bool) or _has_nested_bool(x) for x in v.values())
    return False


def literals(cfg):
    base = jv.json_values(max_leaves=5)
    if cfg.nested_bool_literals:
        return base
    return base.filter(lambda v: not _has_nested_bool(v))


@st.composite
def schemas(draw, cfg=None, depth=None, _counter=None):
    cfg = cfg or Cfg()
    depth = cfg.depth if depth is None else depth
    counter = _counter if _counter is not None else [0]
    sub = lambda d=None: schemas(  # noqa: E731
        cfg, (depth - 1) if d is None else d, counter
    )

    if depth <= 0 or draw(st.integers(0, 9)) == 0:
        kind = draw(st.integers(0, 5))
        if kind == 0:
            return draw(st.booleans())
        if kind == 1:
            return {}
    s = {}
    weights = 3 if depth > 0 else 1
    groups = draw(
        st.lists(
            st.sampled_from(
                ["type", "type", "literal", "numeric", "string", "array",
                 "object", "object", "compose", "annot"]
                + (["object", "array"] if cfg.object_bias else [])
            ),
            min_size=1,
            max_size=weights,
            unique=True,
        )
    )
    if depth <= 0:
        groups = [g for g in groups if g not in ("compose",)] or ["type"]

    if "type" in groups:
        if draw(st.integers(0, 3)) == 0:
            s["type"] = draw(
                st.lists(st.sampled_from(SIMPLE_TYPES), min_size=1, max_size=3, unique=True)
            )
        else:
            s["type"] = draw(st.sampled_from(SIMPLE_TYPES))
    if "literal" in groups:
        if draw(st.booleans()):
            s["enum"] = draw(st.lists(literals(cfg), min_size=1, max_size=4))
        else:
            s["const"] = draw(literals(cfg))
    if "numeric" in groups:
        for kw in draw(
            st.lists(
                st.sampled_from(["minimum", "maximum", "exclusiveMinimum",
                                 "exclusiveMaximum", "multipleOf"]),
                min_size=1, max_size=3, unique=True,
            )
        ):
            if kw == "multipleOf":
                s[kw] = draw(st.sampled_from([1, 2, 3, 5, 0.5, 0.25, 1.5, 2.0, 1.0]))
            else:
                s[kw] = draw(jv.numbers)
    if "string" in groups:
        for kw in draw(
            st.lists(
                st.sampled_from(["minLength", "maxLength", "pattern", "format"]),
                min_size=1, max_size=3, unique=True,
            )
        ):
            if kw == "pattern":
                s[kw] = draw(st.sampled_from(PATTERNS))
            elif kw == "format":
                if cfg.formats:
                    s[kw] = draw(st.sampled_from(FORMATS))
            else:
                s[kw] = draw(st.integers(0, 4))
    if "array" in groups:
        kws = draw(
            st.lists(
                st.sampled_from(["items", "items", "tuple", "additionalItems",
                                 "minItems", "maxItems", "uniqueItems", "contains"]),
                min_size=1, max_size=4, unique=True,
            )
        )
        for kw in kws:
            if kw == "items" and "items" not in s:
                s["items"] = draw(sub())
            elif kw == "tuple":
                # Draft 6: a tuple `items` needs at least one schema (schemaArray has minItems 1)
                s["items"] = draw(st.lists(sub(), min_size=1, max_size=3))
                if "additionalItems" not in s and draw(st.booleans()):
                    s["additionalItems"] = draw(st.one_of(st.just(False), st.just(False), st.booleans(), sub()))
            elif kw == "additionalItems":
                s[kw] = draw(st.one_of(st.booleans(), sub()))
            elif kw in ("minItems", "maxItems"):
                s[kw] = draw(st.integers(0, 4))
            elif kw == "uniqueItems":
                s[kw] = draw(st.sampled_from([True, True, False]))
            elif kw == "contains":
                s[kw] = draw(sub())
    if "object" in groups:
        kws = draw(
            st.lists(
                st.sampled_from(
                    ["properties", "properties", "patternProperties",
                     "additionalProperties", "required", "minProperties",
                     "maxProperties", "dependencies", "propertyNames"]
                ),
                min_size=1, max_size=5, unique=True,
            )
        )
        declared = []
        if "properties" in kws:
            declared = draw(
                st.lists(st.sampled_from(cfg.prop_names), max_size=4, unique=True)
            )
            s["properties"] = {name: draw(sub()) for name in declared}
        if "patternProperties" in kws:
            pool = PATTERNS
            if declared and draw(st.integers(0, 2)) == 0:
                # patterns that match a declared name: that member is governed by properties AND by every
                # matching pattern
                import re as _re
                name = draw(st.sampled_from(declared))
                pool = [p for p in PATTERNS if _re.search(p, name)] or PATTERNS
            pats = draw(st.lists(st.sampled_from(pool), min_size=1, max_size=3, unique=True))
            s["patternProperties"] = {p: draw(sub()) for p in pats}
            if pool is not PATTERNS and len(pats) >= 2 and draw(st.booleans()):
                # ... each contributing ONE constraint of a common family, so that a value can satisfy the
                # property schema and some of the patterns while violating another
                family = draw(st.sampled_from(OVERLAP_FAMILIES))
                parts = draw(st.permutations(family))
                s["properties"][name] = copy.deepcopy(parts[0])
                for p, part in zip(pats, parts[1:]):
                    s["patternProperties"][p] = copy.deepcopy(part)
        if "additionalProperties" in kws:
            s["additionalProperties"] = draw(st.one_of(st.booleans(), sub()))
        if "required" in kws:
            pool = list(declared)
            if cfg.required_undeclared or not pool:
                # (also names that are not identifiers: what governs an undeclared key - which pattern matches it,
                # whether it is "additional" - is decided by its JSON spelling, not by any attribute name)
                pool = pool + ["a", "b", "d", "x-id", "d e", "k.v"]
            s["required"] = draw(
                st.lists(st.sampled_from(pool), max_size=3, unique=True)
            )
        if cfg.required_undeclared and draw(st.integers(0, 11)) == 0:
            # an UNDECLARED required key whose JSON spelling is not an identifier, a pattern that tells that spelling
            # from any identifier made of it, and a restrictive additionalProperties: which of the two governs the
            # key is decided by the JSON name
            name, pats = draw(st.sampled_from([("x-id", ["-", "_", "^x-"]), ("d e", [" ", "_"]), ("k.v", ["[.]", "_"]),
                                               ("a-b", ["-", "_"])]))
            if name not in s.get("properties", {}):
                s["required"] = list(dict.fromkeys(list(s.get("required", [])) + [name]))
                pp = s.setdefault("patternProperties", {})
                pp[draw(st.sampled_from(pats))] = draw(st.sampled_from([{"type": "string"}, {"type": "integer"}, True, {}]))
                s["additionalProperties"] = draw(st.sampled_from([False, False, {"type": "null"}, {"type": "boolean"}]))
                if "type" not in s and draw(st.integers(0, 2)) > 0:
                    s["type"] = "object"  # the model-class route (the title is added below)
        if cfg.defaults:
            # required-with-default (the documented waiver) needs both on one property
            for name in s.get("required", []):
                sub_s = s.get("properties", {}).get(name)
                if isinstance(sub_s, dict) and "default" not in sub_s and draw(st.integers(0, 2)) == 0:
                    sub_s["default"] = draw(jv.scalars)
        for kw in ("minProperties", "maxProperties"):
            if kw in kws:
                s[kw] = draw(st.integers(0, 3))
        if "dependencies" in kws:
            dep_keys = draw(st.lists(st.sampled_from(["a", "b", "c", "x1"]), min_size=1, max_size=2, unique=True))
            s["dependencies"] = {
                k: draw(
                    st.one_of(
                        st.lists(st.sampled_from(["a", "b", "c", "d"]), max_size=2, unique=True),
                        sub(),
                    )
                )
                for k in dep_keys
            }
        if "propertyNames" in kws:
            s["propertyNames"] = draw(
                st.one_of(
                    st.fixed_dictionaries(
                        {}, optional={
                            "pattern": st.sampled_from(PATTERNS),
                            "maxLength": st.integers(0, 3),
                            "minLength": st.integers(0, 2),
                            "enum": st.lists(st.sampled_from(["a", "b", "ab", 1]), min_size=1, max_size=3),
                        }
                    ),
                    sub(),
                )
            )
    if "compose" in groups:
        for kw in draw(
            st.lists(st.sampled_from(["anyOf", "oneOf", "allOf", "not"]), min_size=1, max_size=2, unique=True)
        ):
            if kw == "not":
                s["not"] = draw(sub())
            else:
                branches = draw(st.lists(sub(), min_size=1, max_size=3))
                if depth > 1 and draw(st.integers(0, 3)) == 0:
                    # a bare nested composition of the same kind (must not be flattened for oneOf)
                    inner = draw(st.lists(sub(depth - 2), min_size=2, max_size=3))
                    branches.insert(draw(st.integers(0, len(branches))), {kw: inner})
                s[kw] = branches
    if "annot" in groups or (cfg.defaults and draw(st.integers(0, 5)) == 0):
        if cfg.defaults:
            d = draw(st.one_of(jv.json_values(max_leaves=4), st.sampled_from([False, 0, "", [], {}, None])))
            composed = any(k in s for k in ("anyOf", "oneOf", "allOf", "not"))
            if cfg.falsy_composition_default or not (composed and not d):
                s["default"] = d
        if cfg.descriptions and draw(st.booleans()):
            s["description"] = draw(st.sampled_from(["d", "a description", "Line one\nline two", "cr\rlf", "crlf\r\nline", "tab\there",
                                                      'quote " and \\ backslash', ""]))
    if "type" not in s and draw(st.integers(0, 3)) == 0:
        # what real documents look like: the keywords of ONE type together with that type (typed elements are other
        # classes of the library than the untyped one, with their own construction, repr and annotation)
        fitting = [t for g, ts in (("numeric", ["number", "integer"]), ("string", ["string"]), ("array", ["array"]),
                                   ("object", ["object"])) if g in groups for t in ts]
        if fitting:
            s["type"] = draw(st.sampled_from(fitting))
    if getattr(cfg, "degenerate", True) and draw(st.integers(0, 6)) == 0:
        # degenerate but legal spellings that real documents contain: count keywords written as integral floats
        # (Draft 6 reads 2.0 as an integer), empty containers as keyword values, the empty annotation, a boolean
        # schema where the generator put a schema
        for kw in COUNT_KEYWORDS:
            if kw in s and isinstance(s[kw], int) and not isinstance(s[kw], bool) and draw(st.booleans()):
                s[kw] = float(s[kw])
        for kw in ("patternProperties", "dependencies", "properties"):
            if kw not in s and draw(st.integers(0, 3)) == 0:
                s[kw] = {}
        if "required" not in s and draw(st.integers(0, 3)) == 0:
            s["required"] = []
        for kw in ("items", "additionalItems", "contains", "propertyNames", "not", "additionalProperties"):
            if isinstance(s.get(kw), dict) and draw(st.integers(0, 5)) == 0:
                s[kw] = draw(st.sampled_from([True, False, {}]))
        for kw in ("properties", "patternProperties", "dependencies"):
            if isinstance(s.get(kw), dict) and s[kw] and draw(st.integers(0, 3)) == 0:
                k = draw(st.sampled_from(sorted(s[kw])))
                s[kw][k] = draw(st.sampled_from([True, False, False, {}] + ([[]] if kw == "dependencies" else [])))
        for kw in ("anyOf", "oneOf", "allOf"):
            if isinstance(s.get(kw), list) and draw(st.integers(0, 3)) == 0:
                i = draw(st.integers(0, len(s[kw])))
                s[kw].insert(i, draw(st.sampled_from([True, False, {}])))
        if cfg.descriptions and draw(st.integers(0, 3)) == 0:
            s["description"] = ""
    # Parser precondition: anything that may be parsed as an object class needs a title.
    t = s.get("type")
    if t == "object" or (isinstance(t, list) and "object" in t):
        if cfg.unique_titles:
            counter[0] += 1
            s["title"] = f"T{counter[0]}"
        else:
            s["title"] = draw(st.sampled_from(cfg.titles))
    return s


def walk(schema, fn, path=()):
    """Call fn(subschema, path) on every schema position (pre-order)."""
    fn(schema, path)
    if not isinstance(schema, dict):
        return
    for k, v in schema.items():
        if k in ("properties", "patternProperties", "definitions") and isinstance(v, dict):
            for name, sub in v.items():
                walk(sub, fn, path + (k, name))
        elif k == "dependencies" and isinstance(v, dict):
            for name, sub in v.items():
                if isinstance(sub, (dict, bool)):
                    walk(sub, fn, path + (k, name))
        elif k in ("anyOf", "oneOf", "allOf") and isinstance(v, list):
            for i, sub in enumerate(v):
                walk(sub, fn, path + (k, i))
        elif k == "items":
            if isinstance(v, list):
                for i, sub in enumerate(v):
                    walk(sub, fn, path + (k, i))
            else:
                walk(v, fn, path + (k,))
        elif k in ("additionalItems", "additionalProperties", "contains", "propertyNames", "not"):
            if isinstance(v, (dict, bool)):
                walk(v, fn, path + (k,))


def group_of(keyword):
    for g, kws in GROUPS.items():
        if keyword in kws:
            return g
    return None


GROUPS = {
    "type": {"type"},
    "literal": {"enum", "const"},
    "numeric": {"minimum", "maximum", "exclusiveMinimum", "exclusiveMaximum", "multipleOf"},
    "string": {"minLength", "maxLength", "pattern", "format"},
    "array": {"items", "additionalItems", "minItems", "maxItems", "uniqueItems", "contains"},
    "object": {"properties", "patternProperties", "additionalProperties", "required",
               "minProperties", "maxProperties", "dependencies", "propertyNames"},
    "compose": {"anyOf", "oneOf", "allOf", "not"},
    "annot": {"default", "title", "description"},
}


def groups_in(schema):
    if not isinstance(schema, dict):
        return frozenset(["bool"])
    return frozenset(g for g in (group_of(k) for k in schema) if g)
