"""Import statham from the working tree under test.

$VERIF_REPO_DIR (default /repo) is put first on sys.path and the import is
verified to come from there, so a check always exercises the current tree.
"""
import os
import sys
import warnings

REPO_DIR = os.path.realpath(os.environ.get("VERIF_REPO_DIR", "/repo"))
os.environ.setdefault("STATHAM_SCHEMA_VERIF", "1")

if REPO_DIR not in sys.path:
    sys.path.insert(0, REPO_DIR)

warnings.filterwarnings("ignore")

import statham  # noqa: E402

_where = os.path.realpath(statham.__file__)
if not _where.startswith(REPO_DIR + os.sep):
    raise RuntimeError(
        f"statham imported from {_where}, expected inside {REPO_DIR}"
    )
