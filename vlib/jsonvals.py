"""JSON values: type-faithful equality, canonical form, pooled strategies.

Equality is Draft 6 instance equality: ``true != 1``, ``1 == 1.0``,
arrays index-wise, objects key-wise.
"""
import copy
import hashlib
import json
import math

from hypothesis import strategies as st


def is_num(v):
    return isinstance(v, (int, float)) and not isinstance(v, bool)


def json_eq(a, b):
    """Draft-6 equality (bool is not a number; 1 == 1.0)."""
    if isinstance(a, bool) or isinstance(b, bool):
        return isinstance(a, bool) and isinstance(b, bool) and a == b
    if is_num(a) and is_num(b):
        return a == b
    if isinstance(a, str) and isinstance(b, str):
        return a == b
    if a is None or b is None:
        return a is None and b is None
    if isinstance(a, list) and isinstance(b, list):
        return len(a) == len(b) and all(json_eq(x, y) for x, y in zip(a, b))
    if isinstance(a, dict) and isinstance(b, dict):
        return set(a) == set(b) and all(json_eq(a[k], b[k]) for k in a)
    return False


def json_identical(a, b):
    """Stricter than json_eq: numbers must also have the same Python type."""
    if type(a) is not type(b):
        return False
    if isinstance(a, float):
        return a == b and math.copysign(1, a) == math.copysign(1, b)
    if isinstance(a, list):
        return len(a) == len(b) and all(
            json_identical(x, y) for x, y in zip(a, b)
        )
    if isinstance(a, dict):
        return set(a) == set(b) and all(json_identical(a[k], b[k]) for k in a)
    return a == b


def is_json(v, depth=0):
    if depth > 200:
        return False
    if v is None or isinstance(v, (bool, str)):
        return True
    if isinstance(v, int):
        return True
    if isinstance(v, float):
        return math.isfinite(v)
    if isinstance(v, list):
        return all(is_json(x, depth + 1) for x in v)
    if isinstance(v, dict):
        return all(
            isinstance(k, str) and is_json(x, depth + 1) for k, x in v.items()
        )
    return False


def canon(v):
    """Canonical text; keeps true/1/1.0 apart; key order ignored."""
    return json.dumps(v, sort_keys=True, ensure_ascii=True, default=repr)


def h64(v):
    """64-bit hash of the canonical form (for distinct-case counting)."""
    if not isinstance(v, str):
        v = canon(v)
    return int.from_bytes(
        hashlib.blake2b(v.encode("utf8", "surrogatepass"), digest_size=8).digest(),
        "big",
    )


# ----------------------------------------------------------------- pools

INTS = [-2, -1, 0, 1, 2, 3, 4, 5, 6, 10]
FLOATS = [0.0, 1.0, -0.0, 2.0, 0.5, 1.5, 2.5, -0.5, 0.25, 3.0, 7.5]
STRS = [
    "", "a", "b", "ab", "ba", "abc", "aa", "x", "foo", "ba", "12", "0", "1",
    "true", "a-b", "class", "x1", "é", "日本", "a b", "bb", "xa",
]
LOOKALIKES = [0, False, 0.0, 1, True, 1.0, "", [], {}, None, "0", "1", [0],
              [False], [1], [True], {"a": 1}, {"a": True}, {"a": 0},
              {"a": False}, [[1]], [[True]]]

def reordered(v):
    """The same JSON value with the members of every object in reverse order."""
    if isinstance(v, dict):
        return {k: reordered(v[k]) for k in reversed(list(v))}
    if isinstance(v, list):
        return [reordered(x) for x in v]
    return v


def counted_strings(n):
    """Strings of exactly n code points whose length under other measures differs: combining sequences (NFC
    shortens), characters that NFC expands, astral characters (2 UTF-16 units), wide UTF-8."""
    if n <= 0:
        return [""]
    out = ["\U0001f600" * n, "\u65e5" * n, "\u0958" * n]
    if n >= 2:
        out += ["e\u0301" * (n // 2) + "a" * (n % 2), "\u1100\u1161" * (n // 2) + "a" * (n % 2)]
    return out


ints = st.one_of(st.sampled_from(INTS), st.integers(-20, 20))
dyadic = st.one_of(
    st.sampled_from(FLOATS), st.integers(-80, 80).map(lambda k: k / 8)
)
numbers = st.one_of(ints, dyadic)
small_text = st.text(alphabet="abx01_- é日", min_size=0, max_size=4)
strings = st.one_of(st.sampled_from(STRS), small_text)
scalars = st.one_of(
    st.none(), st.booleans(), ints, dyadic, strings,
    st.sampled_from([0, False, 0.0, 1, True, 1.0, "", None]),
)
KEYS = ["a", "b", "c", "ab", "a-b", "class", "not", "x1", "1x", "$id", "d",
        "ba", "12", "x"]
keys = st.one_of(st.sampled_from(KEYS), small_text)


def json_values(extra=None, max_leaves=12):
    """Arbitrary JSON, optionally seeded with literals lifted from a schema."""
    base = scalars
    if extra:
        base = st.one_of(scalars, st.sampled_from(list(extra)))
    base = st.one_of(base, st.sampled_from(LOOKALIKES))
    return st.recursive(
        base,
        lambda ch: st.one_of(
            st.lists(ch, max_size=4),
            st.dictionaries(keys, ch, max_size=4),
        ),
        max_leaves=max_leaves,
    )


@st.composite
def nested_literals(draw):
    """Literals whose dicts sit at every kind of position: dict in list in dict, dict in list in list, ...
    (the documented loading pipeline annotates EVERY dict of a document, literal or not; the parser has to
    strip those annotations wherever they are)."""
    leaf = draw(st.sampled_from([{"k": 1}, {}, {"host": "a", "port": 80}, {"a": {"b": None}}, {"type": "object"},
                                 {"title": "t"}, {"k": [1, 2]}]))
    value = copy.deepcopy(leaf)
    for wrap in draw(st.lists(st.sampled_from(["list", "list", "dict", "list+", "dict+"]), min_size=1, max_size=4)):
        if wrap == "list":
            value = [value]
        elif wrap == "list+":
            value = [draw(scalars), value, {"z": 0}]
        elif wrap == "dict":
            value = {draw(st.sampled_from(["servers", "a", "items", "properties"])): value}
        else:
            value = {"first": draw(scalars), "m": value, "last": [{"q": None}]}
    return value


def lookalike(v):
    """Return values that a sloppy equality would confuse with v."""
    out = []
    if v is True:
        out += [1, 1.0]
    elif v is False:
        out += [0, 0.0]
    elif is_num(v):
        if v == 1:
            out.append(True)
        if v == 0:
            out.append(False)
        if isinstance(v, int):
            out.append(float(v))
        elif v == int(v):
            out.append(int(v))
    elif isinstance(v, list):
        for i, x in enumerate(v):
            for y in lookalike(x):
                out.append(v[:i] + [y] + v[i + 1:])
    elif isinstance(v, dict):
        for k, x in v.items():
            for y in lookalike(x):
                out.append({**v, k: y})
    return out


def literals_of(schema, acc=None, depth=0):
    """Collect literals (enum/const/default members, names) from a schema."""
    if acc is None:
        acc = []
    if depth > 30 or not isinstance(schema, (dict, list)):
        return acc
    if isinstance(schema, list):
        for s in schema:
            literals_of(s, acc, depth + 1)
        return acc
    for k, v in schema.items():
        if k == "enum" and isinstance(v, list):
            acc.extend(v)
        elif k in ("const", "default"):
            acc.append(v)
        elif k in ("properties", "patternProperties", "dependencies") and isinstance(v, dict):
            for kk, vv in v.items():
                literals_of(vv, acc, depth + 1)
        elif isinstance(v, (dict, list)):
            literals_of(v, acc, depth + 1)
    return acc
