"""Multi-file schema documents: generation, in-memory serving to json_ref_dict, own resolver.

Documents are ``{filename: json}``.  They reach statham the way users' files do, through
``json_ref_dict``'s public loader registry (in-process), or on disk for subprocess checks.
"""
import copy
import itertools
import json
import os

from hypothesis import strategies as st

from vlib import repo  # noqa: F401
from vlib import jsonvals as jv
from vlib.schemas import PROP_NAMES, PATTERNS

from json_ref_dict import RefDict, materialize
from json_ref_dict.loader import loader
from json_ref_dict.ref_pointer import resolve_uri

_MEM = {}
_COUNTER = itertools.count()


def _mem_loader(base_uri):
    if base_uri in _MEM:
        return copy.deepcopy(_MEM[base_uri])
    return ...


try:
    loader.register(_mem_loader)
except ValueError:
    pass


def serve(files):
    """Serve a document set under a fresh directory name. -> directory."""
    d = f"vmem{next(_COUNTER)}"
    resolve_uri.cache_clear()
    for name, doc in files.items():
        _MEM[f"{d}/{name}"] = doc
    return d


def unserve(d):
    for key in [k for k in _MEM if k.startswith(d + "/")]:
        del _MEM[key]
    resolve_uri.cache_clear()


def materialized(files, root="a.json"):
    """The documented pipeline: materialize(RefDict.from_uri(uri), title_labeller())."""
    from statham.titles import title_labeller

    d = serve(files)
    try:
        return materialize(RefDict.from_uri(f"{d}/{root}#/"), context_labeller=title_labeller())
    finally:
        unserve(d)


def generate_module(files, root="a.json"):
    """statham.__main__.main(uri) on the served documents."""
    from statham.__main__ import main

    d = serve(files)
    try:
        return main(f"{d}/{root}#/")
    finally:
        unserve(d)


def write_files(files, directory):
    os.makedirs(directory, exist_ok=True)
    for name, doc in files.items():
        with open(os.path.join(directory, name), "w", encoding="utf8") as fh:
            json.dump(doc, fh)


# -------------------------------------------------------------- resolver
def inline(files, root="a.json", max_depth=40):
    """Fully inline all $refs with an own resolver (acyclic documents only)."""

    def resolve(ref, base):
        docname, _, pointer = ref.partition("#")
        docname = docname or base
        target = files[docname]
        for part in [p for p in pointer.split("/") if p]:
            part = part.replace("~1", "/").replace("~0", "~")
            target = target[int(part)] if isinstance(target, list) else target[part]
        return target, docname

    def walk(node, base, depth, literal=False):
        if depth > max_depth:
            raise RecursionError("cyclic or too deep")
        if isinstance(node, list):
            return [walk(x, base, depth + 1, literal) for x in node]
        if not isinstance(node, dict):
            return node
        if not literal and isinstance(node.get("$ref"), str):
            target, doc = resolve(node["$ref"], base)
            return walk(target, doc, depth + 1)
        out = {}
        for k, v in node.items():
            if k == "definitions" and not literal:
                continue
            out[k] = walk(v, base, depth + 1, literal or k in ("enum", "const", "default"))
        return out

    return walk(files[root], root, 0)


# -------------------------------------------------------------- strategy
# repeated titles are common (pool of few); "<Title>_<n>" collides with the names that de-duplication hands out
SAFE_TITLES = ["Widget", "my title", "a1b", "Thing", "widget", "Widget", "Widget_1", "widget_1", "Thing_1", "Widget_2"]
# property names that are also names the generated class BODY looks up (class names from titles, imported element
# classes, typing names, builtins): `Widget: Maybe[Widget] = Property(Widget)`
BODY_NAMES = ["Widget", "Thing", "String", "Property", "Maybe", "List", "Any", "Object", "int", "str", "Array", "Element",
              "Union", "__debug__", "None", "True"]
DESCRIPTIONS = ["plain", 'He said "hi"', "back\\slash", 'trailing"', "two\nlines", "", "日本 é", '"""',
                "windows\r\nline ends", "bare\rreturn", "tab\there", "form\x0cfeed", "nbsp\u00a0and\u2028separator",
                "nul\x00char", "trailing backslash\\", "{braces} %s"]
FILES = ["a.json", "b.json", "c.json"]
# string literals that end up inside the generated module text: quotes of every kind, names the import
# inference looks for
HOSTILE_LITERALS = ['"' * 3, 'a' + '"' * 3 + 'b', "'" * 3, "\\", 'He said "hi"', "List", "Union[", "Maybe", "Any",
                    "Property", "'" * 3 + '"' * 3]


class DCfg:
    def __init__(self, titles=True, descriptions=True, repeated_titles=True, max_targets=5,
                 leaf_keywords=True, compositions=True):
        self.__dict__.update(locals())
        del self.__dict__["self"]


@st.composite
def leaf(draw, cfg):
    t = draw(st.sampled_from(["string", "integer", "number", "boolean", "null", None]))
    s = {} if t is None else {"type": t}
    if cfg.leaf_keywords and draw(st.integers(0, 2)) == 0:
        if t == "string":
            s[draw(st.sampled_from(["minLength", "maxLength"]))] = draw(st.integers(0, 3))
        elif t in ("integer", "number"):
            s[draw(st.sampled_from(["minimum", "maximum"]))] = draw(jv.ints)
        elif t is None:
            s["enum"] = draw(st.lists(st.one_of(jv.scalars, st.sampled_from(HOSTILE_LITERALS), jv.nested_literals()),
                                      min_size=1, max_size=3))
    if draw(st.integers(0, 5)) == 0:
        s["default"] = draw(st.one_of(jv.scalars, st.sampled_from([False, 0, "", [], {}] + HOSTILE_LITERALS[:3]),
                                      jv.nested_literals()))
    if draw(st.integers(0, 9)) == 0:
        s["const"] = draw(st.one_of(st.sampled_from(HOSTILE_LITERALS + [1, None]), jv.nested_literals()))
    return s


@st.composite
def sub_schema(draw, cfg, refs, depth):
    """A schema that may reference earlier targets (``refs`` = list of $ref strings)."""
    choices = ["leaf", "leaf"]
    if refs:
        choices += ["ref", "ref", "ref"]
    if depth > 0:
        choices += ["object", "array", "array"]
        if cfg.compositions:
            choices += ["compose"]
    kind = draw(st.sampled_from(choices))
    if kind == "leaf":
        return draw(leaf(cfg))
    if kind == "ref":
        return {"$ref": draw(st.sampled_from(refs))}
    if kind == "array":
        s = {"type": "array"}
        if draw(st.integers(0, 3)) == 0:
            s["items"] = [draw(sub_schema(cfg, refs, depth - 1)) for _ in range(draw(st.integers(1, 2)))]
            if draw(st.booleans()):
                s["additionalItems"] = draw(st.one_of(st.booleans(), sub_schema(cfg, refs, depth - 1)))
        else:
            s["items"] = draw(sub_schema(cfg, refs, depth - 1))
        if draw(st.integers(0, 3)) == 0:
            s["contains"] = draw(sub_schema(cfg, refs, depth - 1))
        if draw(st.integers(0, 4)) == 0:
            s["minItems"] = draw(st.integers(0, 2))
        return s
    if kind == "compose":
        kw = draw(st.sampled_from(["anyOf", "oneOf", "allOf", "not"]))
        if kw == "not":
            return {"not": draw(sub_schema(cfg, refs, depth - 1))}
        s = {kw: [draw(sub_schema(cfg, refs, depth - 1)) for _ in range(draw(st.integers(1, 3)))]}
        shape = draw(st.integers(0, 7))
        if shape == 0:
            # only trivial members (the composition collapses to the trivial schema)
            s[kw] = [draw(st.sampled_from([{}, True, {"title": "x"}, {"description": "d"}]))
                     for _ in range(draw(st.integers(1, 2)))]
        elif shape == 1:
            s[kw].insert(draw(st.integers(0, len(s[kw]))), draw(st.sampled_from([{}, True])))
        if draw(st.integers(0, 3)) == 0:
            kw2 = draw(st.sampled_from(["anyOf", "oneOf", "allOf"]))
            if kw2 not in s:
                s[kw2] = [draw(sub_schema(cfg, refs, depth - 1)) for _ in range(draw(st.integers(1, 2)))]
        if draw(st.integers(0, 3)) == 0:
            s["default"] = draw(st.one_of(jv.scalars, st.sampled_from([False, 0, "", [], {}])))
        return s
    return draw(object_schema(cfg, refs, depth - 1))


@st.composite
def object_schema(draw, cfg, refs, depth):
    s = {"type": "object"}
    if cfg.titles and draw(st.integers(0, 2)) == 0:
        s["title"] = draw(st.sampled_from(SAFE_TITLES))
    if cfg.descriptions and draw(st.integers(0, 3)) == 0:
        s["description"] = draw(st.sampled_from(DESCRIPTIONS))
    names = draw(st.lists(st.sampled_from(PROP_NAMES + ["items", "0", "anyOf", "é", "examples", "$comment", "definitions",
                                                          "default", "title"] + BODY_NAMES), min_size=0, max_size=3,
                          unique=True))
    if names:
        s["properties"] = {n: draw(sub_schema(cfg, refs, depth)) for n in names}
        req = draw(st.lists(st.sampled_from(names), max_size=2, unique=True))
        if draw(st.integers(0, 3)) == 0:
            # required names that are not declared (the parser invents untyped properties for them)
            req += draw(st.lists(st.sampled_from(["r1", "r2", "r-3", "zz", "Id"]), min_size=1, max_size=3, unique=True))
        if req:
            s["required"] = req
    extra = draw(st.integers(0, 7))
    if extra == 0:
        s["additionalProperties"] = draw(st.one_of(st.booleans(), sub_schema(cfg, refs, depth)))
    elif extra == 1:
        s["patternProperties"] = {draw(st.sampled_from(PATTERNS)): draw(sub_schema(cfg, refs, depth))}
        if draw(st.booleans()):
            # two or three patterns whose schemas are DIFFERENT objects under one title (the order in which they
            # are parsed decides which becomes Setting, Setting_1, Setting_2)
            title = draw(st.sampled_from(["Setting", "Widget", "my title"]))
            for i, pat in enumerate(draw(st.lists(st.sampled_from(["^a", "b$", "x", "^s", "^[0-9]+$", "-"]), min_size=2,
                                                  max_size=3, unique=True))):
                s["patternProperties"][pat] = {"type": "object", "title": title,
                                               "properties": {"f%d" % i: {"type": "integer"}}}
    elif extra == 2:
        s["dependencies"] = {draw(st.sampled_from(["a", "b"])): draw(sub_schema(cfg, refs, depth))}
    elif extra == 3:
        s["minProperties"] = draw(st.integers(0, 2))
    elif extra == 4:
        s["propertyNames"] = {"maxLength": draw(st.integers(1, 4))}
    if draw(st.integers(0, 8)) == 0:
        s["default"] = draw(st.sampled_from([{}, {"a": 1}, None, 0]))
    inline_objects = [n for n, v in (s.get("properties") or {}).items()
                      if isinstance(v, dict) and v.get("type") == "object"]
    if inline_objects and draw(st.integers(0, 2)) == 0:
        # a structurally identical sibling under ANOTHER title (equal classes with different names, both inline)
        twin = copy.deepcopy(s["properties"][draw(st.sampled_from(inline_objects))])
        twin["title"] = draw(st.sampled_from(["Twin", "Other thing", "Widget_2", "ZTwin"]))
        s["properties"][draw(st.sampled_from(["zz", "a0", "twin"]))] = twin
    return s


@st.composite
def documents(draw, cfg=None):
    """-> {"files": {...}, "root": "a.json"}; $refs only point to earlier targets (acyclic)."""
    cfg = cfg or DCfg()
    nfiles = draw(st.integers(1, 3))
    names = FILES[:nfiles]
    files = {n: {} for n in names}
    refs_from = {n: [] for n in names}  # file -> refs usable from that file
    n_targets = draw(st.integers(0, cfg.max_targets))
    targets = []
    whole = set()  # files whose root is itself a target (never overwritten later: would allow cycles)
    for i in range(n_targets):
        fname = draw(st.sampled_from(names))
        whole_file = fname != "a.json" and fname not in whole and draw(st.integers(0, 3)) == 0
        if whole_file:
            whole.add(fname)
        usable = list(refs_from[fname])
        body = draw(st.one_of(object_schema(cfg, usable, 1), object_schema(cfg, usable, 1),
                              sub_schema(cfg, usable, 1)))
        if "$ref" in body:
            body = draw(object_schema(cfg, usable, 1))  # no pure-alias definitions
        if whole_file:
            defs = files[fname].get("definitions")
            files[fname] = dict(body)
            if defs:
                files[fname]["definitions"] = defs
            pointer = ""
        else:
            key = f"d{i}" if draw(st.integers(0, 3)) else draw(st.sampled_from(["item", "node", "Thing"])) + str(i)
            files[fname].setdefault("definitions", {})[key] = body
            pointer = f"/definitions/{key}"
        targets.append((fname, pointer))
        for other in names:
            if other == fname:
                refs_from[other].append(f"#{pointer}" if pointer else "#")
            else:
                refs_from[other].append(f"{fname}#{pointer}" if pointer else fname)
        # "#" (whole own file) is not offered from inside that file: that would be a cycle
        refs_from[fname] = [r for r in refs_from[fname] if r != "#"]
    usable = [r for r in refs_from["a.json"] if r != "#"]
    root_defs = files["a.json"].get("definitions")
    root = draw(st.one_of(object_schema(cfg, usable, 2), object_schema(cfg, usable, 2),
                          sub_schema(cfg, usable, 2)))
    if "$ref" in root:
        root = draw(object_schema(cfg, usable, 2))
    files["a.json"] = dict(root)
    if root_defs:
        files["a.json"]["definitions"] = root_defs
    for n in names:
        if n not in whole and n != "a.json":
            files[n].setdefault("type", "string")
    return {"files": files, "root": "a.json"}


def ref_kinds(files):
    """Histogram helper: which kinds of $ref a document set uses."""
    out = set()
    seen = {}

    def walk(node, fname):
        if isinstance(node, list):
            for x in node:
                walk(x, fname)
        elif isinstance(node, dict):
            r = node.get("$ref")
            if isinstance(r, str):
                if r.startswith("#"):
                    out.add("local")
                elif "#" in r:
                    out.add("cross-file-pointer")
                else:
                    out.add("whole-file")
                seen[(fname, r)] = seen.get((fname, r), 0) + 1
            for v in node.values():
                walk(v, fname)

    for fname, doc in files.items():
        walk(doc, fname)
    if any(c > 1 for c in seen.values()):
        out.add("shared-target")
    return out
