"""Reference JSON Schema Draft 6 validator (the semantic oracle).

Written for obviousness, never touches statham.  Verdicts are three-valued:
``True`` (valid), ``False`` (invalid), ``None`` ("either": the statement
leaves the verdict open, see deviation 3).

Deviations (all switchable):
 1. ``int_is_int``: ``integer`` <=> Python int and not bool (1.0 is not).
 2. ``formats``: mapping name -> predicate; only listed names assert.
 3. ``waiver``: a missing required property whose schema declares a default
    (directly or through a composition keyword) makes ``required`` undecided.
"""
from urllib.parse import unquote
import re
from fractions import Fraction

from vlib.jsonvals import json_eq, is_num

T, F, E = True, False, None


def k_and(vals):
    out = T
    for v in vals:
        if v is F:
            return F
        if v is E:
            out = E
    return out


def k_or(vals):
    out = F
    for v in vals:
        if v is T:
            return T
        if v is E:
            out = E
    return out


def k_not(v):
    return E if v is E else (not v)


def k_one(vals):
    vals = list(vals)
    lo = sum(1 for v in vals if v is T)
    hi = lo + sum(1 for v in vals if v is E)
    if lo > 1 or hi < 1:
        return F
    if lo == 1 and hi == 1:
        return T
    return E


class Opts:
    def __init__(self, int_is_int=True, formats=None, waiver=True, store=None, regex="python"):
        self.int_is_int = int_is_int
        self.formats = formats or {}
        self.waiver = waiver
        self.store = store or {}
        # "ecma": patterns are read as ECMA 262 regular expressions (what Draft 6 prescribes); "python": as
        # Python's `re` reads them (what statham, and jsonschema, do)
        self.regex = regex


_ECMA_CACHE = {}
_ECMA_CLASS = {"d": "0-9", "w": "A-Za-z0-9_"}
_ECMA_SPACE = "\t\n\x0b\x0c\r \xa0\u1680\u2000-\u200a\u2028\u2029\u202f\u205f\u3000\ufeff"


def ecma_to_python(pattern):
    """Rewrite an ECMA 262 (non-unicode-mode) pattern so that Python's `re` gives it the ECMA meaning where the two
    dialects differ on ordinary input: `$` (end of input only - not before a final newline), `.` (also excludes
    CR, U+2028, U+2029), `\\d \\w \\s` and their negations (ASCII digits / word characters, ECMA white space)."""
    if pattern in _ECMA_CACHE:
        return _ECMA_CACHE[pattern]
    out, i, in_class = [], 0, False
    while i < len(pattern):
        c = pattern[i]
        if c == "\\" and i + 1 < len(pattern):
            e = pattern[i + 1]
            if e in "dw":
                out.append(_ECMA_CLASS[e] if in_class else "[" + _ECMA_CLASS[e] + "]")
            elif e in "DW" and not in_class:
                out.append("[^" + _ECMA_CLASS[e.lower()] + "]")
            elif e == "s":
                out.append(_ECMA_SPACE if in_class else "[" + _ECMA_SPACE + "]")
            elif e == "S" and not in_class:
                out.append("[^" + _ECMA_SPACE + "]")
            else:
                out.append(pattern[i:i + 2])
            i += 2
            continue
        if in_class:
            in_class = c != "]"
            out.append(c)
        elif c == "[":
            in_class = True
            out.append(c)
            if pattern[i + 1:i + 2] == "^":
                out.append("^")
                i += 1
        elif c == "$":
            out.append("\\Z")
        elif c == ".":
            out.append("[^\\n\\r\\u2028\\u2029]")
        else:
            out.append(c)
        i += 1
    _ECMA_CACHE[pattern] = "".join(out)
    return _ECMA_CACHE[pattern]


def _search(pattern, string, opts):
    if opts is not None and opts.regex == "ecma":
        try:
            return re.search(ecma_to_python(pattern), string) is not None
        except re.error:
            pass
    return re.search(pattern, string) is not None


class Trace:
    """Which keywords were applicable / failed, per evaluation."""

    def __init__(self):
        self.applicable = set()
        self.failed = set()
        self.decisive = set()
        self.either = 0
        self.steps = 0


def is_type(value, name, opts):
    if name == "null":
        return value is None
    if name == "boolean":
        return isinstance(value, bool)
    if name == "string":
        return isinstance(value, str)
    if name == "array":
        return isinstance(value, list)
    if name == "object":
        return isinstance(value, dict)
    if name == "number":
        return is_num(value)
    if name == "integer":
        if not is_num(value):
            return False
        if isinstance(value, int):
            return True
        return (not opts.int_is_int) and float(value).is_integer()
    raise ValueError(f"unknown type {name!r}")


def declares_default(schema, depth=0, opts=None, base=None):
    """A default on the schema, or reachable through $ref / composition keywords."""
    if not isinstance(schema, dict) or depth > 20:
        return False
    if "$ref" in schema and opts is not None:
        try:
            target, doc = resolve_ref(schema["$ref"], base, opts)
        except (KeyError, IndexError, ValueError, TypeError):
            return False
        return declares_default(target, depth + 1, opts, doc)
    if "default" in schema:
        return True
    for key in ("anyOf", "oneOf", "allOf"):
        for sub in schema.get(key, []) or []:
            if declares_default(sub, depth + 1, opts, base):
                return True
    return False


def governing_schema(schema, key):
    """The schema that applies to member ``key`` for the purpose of the default waiver: its
    ``properties`` entry, else (if no patternProperties regex matches) ``additionalProperties``."""
    props = schema.get("properties", {})
    if key in props:
        return props[key]
    if any(re.search(p, key) for p in schema.get("patternProperties", {})):
        return None
    extra = schema.get("additionalProperties")
    return extra if isinstance(extra, dict) else None


def resolve_ref(ref, base, opts):
    """Resolve '#/a/b' or 'file.json#/a/b' against opts.store."""
    if "#" in ref:
        doc, pointer = ref.split("#", 1)
    else:
        doc, pointer = ref, ""
    doc = doc or base
    target = opts.store[doc]
    for part in [p for p in pointer.split("/") if p != ""]:
        # RFC 6901 section 6: a pointer in a URI fragment is percent-decoded first, then ~1 and ~0 are unescaped
        part = unquote(part).replace("~1", "/").replace("~0", "~")
        if isinstance(target, list):
            target = target[int(part)]
        else:
            target = target[part]
    return target, doc


def validate(schema, value, opts=None, trace=None, base=None, _depth=0):
    """Return True / False / None (either)."""
    opts = opts or Opts()
    if trace is not None:
        trace.steps += 1
    if schema is True:
        return T
    if schema is False:
        return F
    if not isinstance(schema, dict):
        raise ValueError(f"not a schema: {schema!r}")
    if "$ref" in schema:
        target, doc = resolve_ref(schema["$ref"], base, opts)
        return validate(target, value, opts, trace, doc, _depth + 1)
    results = []

    def rec(sub, val):
        return validate(sub, val, opts, None, base, _depth + 1)

    def note(keyword, res):
        results.append((keyword, res))
        return res

    s = schema
    if "type" in s:
        types = s["type"] if isinstance(s["type"], list) else [s["type"]]
        note("type", any(is_type(value, t, opts) for t in types))
    if "enum" in s:
        note("enum", any(json_eq(value, m) for m in s["enum"]))
    if "const" in s:
        note("const", json_eq(value, s["const"]))
    # ------------------------------------------------------------ numeric
    if is_num(value):
        if "minimum" in s:
            note("minimum", value >= s["minimum"])
        if "maximum" in s:
            note("maximum", value <= s["maximum"])
        if "exclusiveMinimum" in s:
            note("exclusiveMinimum", value > s["exclusiveMinimum"])
        if "exclusiveMaximum" in s:
            note("exclusiveMaximum", value < s["exclusiveMaximum"])
        if "multipleOf" in s:
            q = Fraction(value) / Fraction(s["multipleOf"])
            note("multipleOf", q.denominator == 1)
    # ------------------------------------------------------------- string
    if isinstance(value, str):
        if "minLength" in s:
            note("minLength", len(value) >= s["minLength"])
        if "maxLength" in s:
            note("maxLength", len(value) <= s["maxLength"])
        if "pattern" in s:
            note("pattern", _search(s["pattern"], value, opts))
        if "format" in s and s["format"] in opts.formats:
            note("format", bool(opts.formats[s["format"]](value)))
    # -------------------------------------------------------------- array
    if isinstance(value, list):
        if "minItems" in s:
            note("minItems", len(value) >= s["minItems"])
        if "maxItems" in s:
            note("maxItems", len(value) <= s["maxItems"])
        if s.get("uniqueItems") is True:
            uniq = all(
                not json_eq(value[i], value[j])
                for i in range(len(value))
                for j in range(i + 1, len(value))
            )
            note("uniqueItems", uniq)
        if "items" in s:
            items = s["items"]
            if isinstance(items, list):
                note(
                    "items",
                    k_and(rec(sub, v) for sub, v in zip(items, value)),
                )
                if "additionalItems" in s and len(value) > len(items):
                    note(
                        "additionalItems",
                        k_and(
                            rec(s["additionalItems"], v)
                            for v in value[len(items):]
                        ),
                    )
            else:
                note("items", k_and(rec(items, v) for v in value))
        if "contains" in s:
            note("contains", k_or(rec(s["contains"], v) for v in value))
    # ------------------------------------------------------------- object
    if isinstance(value, dict):
        if "minProperties" in s:
            note("minProperties", len(value) >= s["minProperties"])
        if "maxProperties" in s:
            note("maxProperties", len(value) <= s["maxProperties"])
        props = s.get("properties", {})
        patterns = s.get("patternProperties", {})
        if "required" in s:
            missing = [k for k in s["required"] if k not in value]
            if not missing:
                note("required", T)
            elif opts.waiver and all(
                declares_default(governing_schema(s, k), 0, opts, base) for k in missing
            ):
                note("required", E)
            else:
                note("required", F)
        if "properties" in s:
            note(
                "properties",
                k_and(rec(props[k], v) for k, v in value.items() if k in props),
            )
        if "patternProperties" in s:
            note(
                "patternProperties",
                k_and(
                    rec(sub, v)
                    for k, v in value.items()
                    for pat, sub in patterns.items()
                    if _search(pat, k, opts)
                ),
            )
        if "additionalProperties" in s:
            extra = [
                k
                for k in value
                if k not in props
                and not any(_search(pat, k, opts) for pat in patterns)
            ]
            note(
                "additionalProperties",
                k_and(rec(s["additionalProperties"], value[k]) for k in extra),
            )
        if "propertyNames" in s:
            note("propertyNames", k_and(rec(s["propertyNames"], k) for k in value))
        if "dependencies" in s:
            deps = []
            for k, dep in s["dependencies"].items():
                if k not in value:
                    continue
                if isinstance(dep, list):
                    deps.append(all(d in value for d in dep))
                else:
                    deps.append(rec(dep, value))
            note("dependencies", k_and(deps))
    # -------------------------------------------------------- composition
    if "allOf" in s:
        note("allOf", k_and(rec(sub, value) for sub in s["allOf"]))
    if "anyOf" in s:
        note("anyOf", k_or(rec(sub, value) for sub in s["anyOf"]))
    if "oneOf" in s:
        note("oneOf", k_one(rec(sub, value) for sub in s["oneOf"]))
    if "not" in s:
        note("not", k_not(rec(s["not"], value)))

    verdict = k_and(r for _, r in results)
    if trace is not None and _depth == 0:
        for kw, r in results:
            trace.applicable.add(kw)
            if r is F:
                trace.failed.add(kw)
            if r is E:
                trace.either += 1
        failed = [kw for kw, r in results if r is F]
        if len(failed) == 1:
            trace.decisive.add(failed[0])
    return verdict


def keywords_in(schema, acc=None, depth=0):
    """All keyword names used anywhere inside a schema."""
    if acc is None:
        acc = set()
    if not isinstance(schema, dict) or depth > 40:
        return acc
    for k, v in schema.items():
        acc.add(k)
        if k in ("properties", "patternProperties", "definitions"):
            if isinstance(v, dict):
                for sub in v.values():
                    keywords_in(sub, acc, depth + 1)
        elif k == "dependencies":
            for sub in v.values():
                keywords_in(sub, acc, depth + 1)
        elif k in ("anyOf", "oneOf", "allOf"):
            for sub in v:
                keywords_in(sub, acc, depth + 1)
        elif k == "items":
            for sub in v if isinstance(v, list) else [v]:
                keywords_in(sub, acc, depth + 1)
        elif k in ("additionalItems", "additionalProperties", "contains",
                   "propertyNames", "not"):
            keywords_in(v, acc, depth + 1)
    return acc
