"""Structural read-back of an accepted value from the returned model (C04 oracle)."""
from vlib import repo  # noqa: F401
from vlib.jsonvals import is_num

from statham.schema.constants import NotPassed
from statham.schema.elements import Element
from statham.schema.elements.meta import ObjectMeta
from statham.serializers.orderer import get_children  # noqa: F401 (re-exported)


def declared_names(*elements):
    """source -> {python names} and the set of all python names, over the whole tree."""
    by_source, pynames = {}, set()
    seen = set()
    for root in elements:
        for el in [root] + list(get_children(root)):
            if id(el) in seen:
                continue
            seen.add(id(el))
            props = getattr(el, "properties", None)
            if not props or isinstance(props, NotPassed):
                continue
            for name, prop in props.items():
                by_source.setdefault(prop.source if prop.source is not None else name, set()).add(name)
                pynames.add(name)
    return by_source, pynames


def scalar_ok(value, result):
    if isinstance(value, bool) or isinstance(result, bool):
        return isinstance(value, bool) and isinstance(result, bool) and value == result
    if is_num(value):
        if not is_num(result) or value != result:
            return False
        # an int may come back as the equal float; a float stays a float
        return isinstance(value, int) or isinstance(result, float)
    if value is None:
        return result is None
    return type(value) is type(result) and value == result


def readback(value, result, by_source, pynames, path="$", out=None, depth=0):
    """Return a list of problems (empty = every member present and unaltered)."""
    out = [] if out is None else out
    if depth > 80:
        return out
    if isinstance(result, NotPassed):
        out.append({"at": path, "problem": "member-replaced-by-NotPassed"})
        return out
    if isinstance(value, list):
        if not isinstance(result, list):
            out.append({"at": path, "problem": "array-became-" + type(result).__name__})
        elif len(result) != len(value):
            out.append({"at": path, "problem": f"array-length-{len(value)}-to-{len(result)}"})
        else:
            for i, (v, r) in enumerate(zip(value, result)):
                readback(v, r, by_source, pynames, f"{path}[{i}]", out, depth + 1)
        return out
    if isinstance(value, dict):
        if isinstance(type(result), ObjectMeta):
            cls = type(result)
            decl = {(prop.source if prop.source is not None else name): name for name, prop in cls.properties.items()}
            for k, v in value.items():
                if k in decl:
                    try:
                        r = getattr(result, decl[k])
                    except AttributeError:
                        out.append({"at": f"{path}.{k}", "problem": "declared-property-not-readable"})
                        continue
                else:
                    try:
                        r = result[k]
                    except KeyError:
                        out.append({"at": f"{path}.{k}", "problem": "member-dropped"})
                        continue
                readback(v, r, by_source, pynames, f"{path}.{k}", out, depth + 1)
            for name in cls.properties:
                # every declared property is readable as an attribute, supplied or not
                try:
                    getattr(result, name)
                except AttributeError:
                    out.append({"at": f"{path}.<{name}>", "problem": "declared-property-not-readable"})
            explained = {decl.get(k, k) for k in value}
            for key in result._dict:  # noqa: SLF001 - "nothing invented" direction only
                if key in explained:
                    continue
                if key in cls.properties:
                    continue  # declared property holding default / NotPassed (C05 checks the value)
                out.append({"at": f"{path}.{key}", "problem": "member-invented"})
            return out
        if isinstance(result, dict):
            # Each input member must be found under its JSON name or under the Python name of a property
            # with that JSON name; the assignment must be injective.  The governing element is not known
            # here, so candidate names come from the whole tree: resolve the assignment by matching
            # (fewest candidates first, with backtracking), not greedily.
            options = {}
            for k, v in value.items():
                cands = [k] + sorted(by_source.get(k, ()))
                options[k] = [c for c in cands if c in result and not readback(
                    v, result[c], by_source, pynames, f"{path}.{k}", [], depth + 1)]

            def assign(keys, taken):
                if not keys:
                    return {}
                k = keys[0]
                for c in options[k]:
                    if c in taken:
                        continue
                    rest = assign(keys[1:], taken | {c})
                    if rest is not None:
                        return {k: c, **rest}
                return None

            order = sorted(value, key=lambda k: len(options[k]))
            matching = assign(order, frozenset()) if len(order) <= 12 else None
            used = set()
            if matching is not None:
                used = set(matching.values())
            else:
                # report the members that cannot be placed at all / compete for one slot
                for k in order:
                    free = [c for c in options[k] if c not in used]
                    if free:
                        used.add(free[0])
                    else:
                        present = [c for c in [k] + sorted(by_source.get(k, ())) if c in result]
                        out.append({"at": f"{path}.{k}",
                                    "problem": "member-altered" if present else "member-dropped"})
            for key, r in result.items():
                if key in used:
                    continue
                if key in pynames and (isinstance(r, NotPassed) or True):
                    continue  # a declared property of some untyped element: default / NotPassed
                out.append({"at": f"{path}.{key}", "problem": "member-invented"})
            return out
        out.append({"at": path, "problem": "object-became-" + type(result).__name__})
        return out
    if not scalar_ok(value, result):
        out.append({"at": path, "problem": f"scalar-{value!r}-became-{result!r}"[:120]})
    return out
