"""C16 in a NEW interpreter: the first things this process ever does with formats are the given steps.

usage: python -m vlib.c16_fresh_driver   (stdin: {"history": [op, ...]}; stdout: [[got, warned, base] | null, ...])
op = {"op": "register", "name": n, "pred": spec} | {"op": "check", "kind": k, "name": n, "value": v}
"""
import copy
import json
import sys
import warnings

from vlib import repo  # noqa: F401  (puts the tree under test on sys.path)

from statham.schema.elements import Element, String  # noqa: E402
from statham.schema.parser import parse_element  # noqa: E402
from statham.schema.validation.format import format_checker  # noqa: E402


def make_pred(spec):
    fn = _make_pred(spec)

    def checker(value):
        """Match ``[A-Z]{3}-[0-9]{4}`` or {name}."""
        return fn(value)

    return checker


def _make_pred(spec):
    if spec[0] == "always":
        return lambda s: True
    if spec[0] == "never":
        return lambda s: False
    if spec[0] == "len_mod":
        return lambda s: len(s) % spec[1] == spec[2]
    return lambda s: spec[1] in s


def element(kind, name):
    kw = {} if name is None else {"format": name}
    if kind == "String":
        return String(**kw)
    if kind == "Element":
        return Element(**kw)
    if kind == "parsed-untyped":
        return parse_element(dict(kw))
    return parse_element({"type": "string", **kw})


def call(el, value):
    try:
        el(copy.deepcopy(value))
        return "ok"
    except Exception as exc:  # noqa: BLE001
        return "reject" if type(exc).__name__ in ("ValidationError", "TypeError") else "crash:" + type(exc).__name__


def main():
    out = []
    for op in json.load(sys.stdin)["history"]:
        if op["op"] == "register":
            format_checker.register(op["name"])(make_pred(tuple(op["pred"])))
            out.append(None)
            continue
        with warnings.catch_warnings(record=True) as caught:
            warnings.simplefilter("always")
            got = call(element(op["kind"], op["name"]), op["value"])
        warned = any(issubclass(w.category, RuntimeWarning) for w in caught)
        with warnings.catch_warnings():
            warnings.simplefilter("ignore")
            base = call(element(op["kind"], None), op["value"])
        out.append([got, warned, base])
    print(json.dumps(out))


if __name__ == "__main__":
    main()
