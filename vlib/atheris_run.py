"""Coverage-guided campaign for any property module: atheris (libFuzzer) drives the module's own Hypothesis
strategy through fuzz_one_input; the semantic oracle (the module's predicate) runs inside the target.

usage: python -m vlib.atheris_run <props module> <runs> <seed> <out.json>
The module provides `atheris_strategy()` (the case strategy) and `predicate(case, stats)`.
Exit 0: no violation; exit 77: violation (case written to out.json); exit 3: atheris unavailable.
"""
import hashlib
import importlib
import json
import os
import sys
import tempfile

mod_name, runs, seed, out_path = sys.argv[1], int(sys.argv[2]), int(sys.argv[3]), sys.argv[4]

try:
    import atheris
except Exception as exc:  # noqa: BLE001
    json.dump({"status": "atheris-unavailable", "detail": str(exc)[:200]}, open(out_path, "w"))
    sys.exit(3)

# statham must be imported for the first time inside instrument_imports (vlib.repo imports it too)
_repo_dir = os.path.realpath(os.environ.get("VERIF_REPO_DIR", "/repo"))
sys.path.insert(0, _repo_dir)

with atheris.instrument_imports(include=["statham"]):
    import statham  # noqa: F401
    import statham.schema.parser  # noqa: F401
    import statham.schema.elements  # noqa: F401
    import statham.schema.validation  # noqa: F401
    import statham.serializers  # noqa: F401

from vlib import repo  # noqa: E402,F401  (asserts statham comes from the tree under test)
from hypothesis import HealthCheck, given, settings  # noqa: E402

from vlib import findings, runner  # noqa: E402

mod = importlib.import_module(mod_name)
stats = runner.Stats()
state = {"execs": 0}


@settings(database=None, deadline=None, suppress_health_check=list(HealthCheck))
@given(mod.atheris_strategy())
def target(case):
    state["execs"] += 1
    if state["execs"] % 250 == 0:
        json.dump({"status": "running", "execs": state["execs"], "evaluations": stats.evaluations,
                   "distinct": len(stats.nontrivial)}, open(out_path, "w"))
    fails = mod.predicate(case, stats)
    unknown = [f for f in fails if not findings.classify(mod.PID, case, f)]
    if unknown:
        json.dump({"status": "violation", "case": runner._json_safe(case), "failures": runner._json_safe(unknown),
                   "execs": state["execs"]}, open(out_path, "w"))
        os._exit(77)


def one_input(data):
    target.hypothesis.fuzz_one_input(data)


corpus = tempfile.mkdtemp(prefix="atheris_")
# Hypothesis needs a few hundred bytes to draw a whole case; short buffers are overruns that never reach the target:
# start from deterministic pseudo-random buffers (SHAKE of the seed) instead of an empty corpus.
for i in range(12):
    blob = hashlib.shake_256(f"{mod_name}:{seed}:{i}".encode()).digest(1024 + 256 * i)
    with open(os.path.join(corpus, f"seed{i}"), "wb") as fh:
        fh.write(blob)
atheris.Setup([sys.argv[0], f"-runs={runs}", f"-seed={seed}", "-max_len=8192", "-len_control=0",
               "-print_final_stats=0", corpus], one_input)
try:
    atheris.Fuzz()
finally:
    import shutil

    shutil.rmtree(corpus, ignore_errors=True)
