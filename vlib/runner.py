"""Sharded driver: seeds, Hypothesis glue, merging, evidence, exit codes.

Exit status: 0 = property held on everything explored (KNOWN-FINDING lines may
be printed); 1 = violation (``VIOLATION property=<id> replay=<path>``);
2 = harness error / inconclusive (never a VIOLATION line).
"""
import collections
import glob
import hashlib
import json
import multiprocessing
import os
import sys
import time
import traceback

from vlib import findings
from vlib.jsonvals import canon, h64

HOME = findings.HOME
NPROC = int(os.environ.get("VERIF_NPROC", "16"))


class Violation(Exception):
    """Raised by predicates for failures not explained by an open finding."""

    def __init__(self, case, failures):
        super().__init__(failures[0].get("kind", "violation") if failures else "violation")
        self.case = case
        self.failures = failures


class HarnessError(Exception):
    """Oracle self-check disagreement, generator breakage: exit 2."""


class Ctx:
    def __init__(self, pid, tier, seed, shard=0, nshards=1):
        self.pid = pid
        self.tier = tier
        self.seed = seed
        self.shard = shard
        self.nshards = nshards

    @property
    def quick(self):
        return self.tier == "quick"

    def derived(self, salt=0):
        return (self.seed * 1000 + self.shard) * 101 + salt

    def pick(self, quick, thorough):
        return quick if self.quick else thorough


class Stats:
    """Per-shard counters, merged by the parent."""

    MAX_SAMPLES = 4

    def __init__(self):
        self.evaluations = 0
        self.nontrivial = set()
        self.classes = collections.Counter()
        self.samples = []
        self.known = collections.Counter()
        self.excluded = collections.Counter()
        self.inconclusive = collections.Counter()
        self.extra = {}

    def case(self, key, nontrivial, classes=(), sample=None, n=1):
        """Record one predicate execution."""
        self.evaluations += n
        for c in classes:
            self.classes[c] += 1
        if nontrivial:
            h = h64(key)
            fresh = h not in self.nontrivial
            self.nontrivial.add(h)
            if fresh:
                self._fresh = getattr(self, "_fresh", 0) + 1
            if fresh and sample is not None and len(self.samples) < self.MAX_SAMPLES:
                # spread samples: keep the 1st, 10th, 100th, 1000th distinct case seen through case()
                if self._fresh in (1, 10, 100, 1000):
                    self.samples.append(sample)

    def to_dict(self):
        return {
            "evaluations": self.evaluations,
            "nontrivial": list(self.nontrivial),
            "classes": dict(self.classes),
            "samples": self.samples,
            "known": dict(self.known),
            "excluded": dict(self.excluded),
            "inconclusive": dict(self.inconclusive),
            "extra": self.extra,
        }


def triage(pid, case, failures, stats):
    """Split failures into known (counted) and unknown (returned)."""
    unknown = []
    for f in failures:
        name = findings.classify(pid, case, f)
        if name:
            stats.known[name] += 1
        else:
            unknown.append(f)
    return unknown


CASE_LIMIT_S = int(os.environ.get("VERIF_CASE_LIMIT", "45"))
MAX_TIMEOUTS = 4


class CaseTimeout(BaseException):
    """A single case exceeded the wall budget (BaseException: not swallowed by predicates)."""


class ShardAbort(BaseException):
    """Too many case timeouts in one shard: give up (inconclusive, never a violation)."""


def _on_alarm(signum, frame):
    raise CaseTimeout()


def time_limited(fn, stats, label="case"):
    """Run fn() under the per-case wall budget.  -> (finished, result).

    Normal cases take well under a second; the budget only exists so that a change to the code under
    test that makes validation explode (exponentially nested elements, endless loops) cannot hang a
    check.  A timeout is counted as inconclusive and is NEVER reported as a violation.
    """
    import signal
    import threading

    if threading.current_thread() is not threading.main_thread():
        return True, fn()
    old = signal.signal(signal.SIGALRM, _on_alarm)
    signal.setitimer(signal.ITIMER_REAL, CASE_LIMIT_S)
    try:
        return True, fn()
    except CaseTimeout:
        stats.inconclusive[label + "-timeout"] += 1
        if stats.inconclusive[label + "-timeout"] >= MAX_TIMEOUTS:
            raise ShardAbort(f"{MAX_TIMEOUTS} cases exceeded {CASE_LIMIT_S}s") from None
        return False, None
    finally:
        signal.setitimer(signal.ITIMER_REAL, 0)
        signal.signal(signal.SIGALRM, old)


def check_case(pid, predicate, case, stats, limit=True):
    """Run predicate; raise Violation for anything not explained."""
    if limit:
        finished, failures = time_limited(lambda: predicate(case, stats), stats)
        if not finished:
            return
        failures = failures or []
    else:
        failures = predicate(case, stats) or []
    unknown = triage(pid, case, failures, stats)
    if unknown:
        # a predicate over a batch may name the single member that failed
        raise Violation(unknown[0].get("replay_case", case), unknown)


def hyp_run(ctx, stats, strategy, predicate, max_examples, salt=0, shrink=True, limit=True):
    """Drive predicate over strategy with Hypothesis. -> None or failure dict."""
    from hypothesis import HealthCheck, Phase, given, seed, settings

    last = {}
    shrink_budget = SHRINK_BUDGET_S[ctx.tier]

    phases = [Phase.generate, Phase.target]
    if shrink:
        phases.append(Phase.shrink)

    @seed(ctx.derived(salt))
    @settings(
        max_examples=max_examples,
        database=None,
        deadline=None,
        derandomize=False,
        report_multiple_bugs=False,
        suppress_health_check=list(HealthCheck),
        phases=phases,
        print_blob=False,
    )
    @given(strategy)
    def test(case):
        if "t0" in last and time.time() - last["t0"] > shrink_budget:
            # shrinking has had its time: let Hypothesis wind down (it may then report flakiness,
            # which hyp_run turns back into the recorded failure)
            last["budget_hit"] = True
            return
        try:
            check_case(ctx.pid, predicate, case, stats, limit=limit)
        except Violation as v:
            last.setdefault("t0", time.time())
            last["case"] = v.case
            last["failures"] = v.failures
            raise

    try:
        test()
    except Violation:
        return dict(last)
    except Exception as exc:  # noqa: BLE001
        if _is_flaky(exc) and last.get("budget_hit"):
            return {"case": last["case"], "failures": last["failures"]}
        if _is_flaky(exc) and last:
            # the predicate failed on a concrete case, but Hypothesis could not reproduce it while
            # shrinking: the code under test keeps state across cases.  The observed failure stands.
            out = dict(last)
            out["failures"] = [dict(f, flaky_under_hypothesis=True) for f in out["failures"]]
            return out
        raise
    return None


SHRINK_BUDGET_S = {"quick": 45, "thorough": 240}


def atheris_campaign(ctx, stats, mod, runs, salt=5):
    """Coverage-guided libFuzzer campaign over the module's own Hypothesis strategy (vlib/atheris_run.py); the
    module's predicate is the oracle inside the target. A finding is replayed through the plain predicate before it
    is reported. -> failure dict or None."""
    import subprocess
    import tempfile

    from vlib import findings

    out = tempfile.mktemp(prefix="atheris_", suffix=".json")
    p = subprocess.run([sys.executable, "-W", "ignore", "-m", "vlib.atheris_run", mod.__name__, str(runs),
                        str(ctx.derived(salt) % 2 ** 31 or 1), out], cwd=findings.HOME, env=dict(os.environ),
                       stdout=subprocess.PIPE, stderr=subprocess.STDOUT, timeout=3 * 3600)
    result = {}
    if os.path.exists(out):
        with open(out) as fh:
            result = json.load(fh)
        os.unlink(out)
    info = stats.extra.setdefault("atheris", {})
    if p.returncode == 77 and result.get("status") == "violation":
        fails = mod.predicate(result["case"], Stats())
        unknown = triage(mod.PID, result["case"], fails, stats)
        info["violation_execs"] = result.get("execs", 0)
        if unknown:
            return {"case": result["case"], "failures": unknown}
        stats.inconclusive["atheris-finding-not-reproduced"] += 1
        return None
    if p.returncode == 3:
        info["skipped"] = 1
        return None
    if p.returncode != 0:
        stats.inconclusive["atheris-exit-%d" % p.returncode] += 1
        info["log_tail:" + p.stdout.decode(errors="replace")[-300:]] = 1
        return None
    info["campaigns"] = info.get("campaigns", 0) + 1
    info["runs"] = info.get("runs", 0) + runs
    return None


def shrink_budget_exceeded(sink, tier="quick"):
    """State machines ask this at the start of every step (see hyp_run for the rationale)."""
    if sink and "t0" in sink and time.time() - sink["t0"] > SHRINK_BUDGET_S.get(sink.get("tier", tier), 45):
        sink["budget_hit"] = True
        return True
    return False


def machine_run(ctx, stats, machine_cls, max_examples, steps, salt=0):
    """Run a RuleBasedStateMachine; the machine raises Violation itself."""
    from hypothesis import HealthCheck, Phase, seed, settings
    from hypothesis.stateful import run_state_machine_as_test

    last = {"tier": ctx.tier}
    machine_cls._sink = last  # machines record their failing history here
    machine_cls._stats = stats
    try:
        run_state_machine_as_test(
            seed(ctx.derived(salt))(machine_cls),
            settings=settings(
                max_examples=max_examples,
                stateful_step_count=steps,
                database=None,
                deadline=None,
                derandomize=False,
                report_multiple_bugs=False,
                suppress_health_check=list(HealthCheck),
                phases=[Phase.generate, Phase.target, Phase.shrink],
                print_blob=False,
            ),
        )
    except Violation as v:
        return {"case": v.case, "failures": v.failures}
    except Exception as exc:  # noqa: BLE001
        if _is_flaky(exc) and last.get("case") is not None:
            if last.get("budget_hit"):
                return {"case": last["case"], "failures": last["failures"]}
            return {"case": last["case"],
                    "failures": [dict(f, flaky_under_hypothesis=True) for f in last["failures"]]}
        raise
    return None


def record_violation(sink, case, failures):
    """State machines call this right before raising Violation (see machine_run)."""
    if sink is not None:
        sink.setdefault("t0", time.time())
        sink["case"] = case
        sink["failures"] = failures


def _is_flaky(exc):
    try:
        from hypothesis import errors

        kinds = tuple(getattr(errors, n) for n in ("Flaky", "FlakyFailure", "FlakyStrategyDefinition",
                                                   "FlakyReplay") if hasattr(errors, n))
    except Exception:  # noqa: BLE001
        return False
    if isinstance(exc, kinds):
        return True
    subs = getattr(exc, "exceptions", None)  # ExceptionGroup
    return bool(subs) and any(_is_flaky(e) or isinstance(e, Violation) for e in subs)


# ------------------------------------------------------------------ parent


def _shard_entry(args):
    modname, tier, seed, shard, nshards = args
    import importlib

    t0 = time.time()
    try:
        mod = importlib.import_module(modname)
        ctx = Ctx(mod.PID, tier, seed, shard, nshards)
        stats = Stats()
        try:
            failure = mod.run_shard(ctx, stats)
        except ShardAbort as exc:
            failure = None
            stats.inconclusive["shard-aborted: " + str(exc)] += 1
        out = stats.to_dict()
        out["failure"] = failure
        out["wall"] = time.time() - t0
        out["shard"] = shard
        return out
    except Exception:  # noqa: BLE001
        return {"harness_error": traceback.format_exc(), "shard": shard}


def _json_safe(obj):
    try:
        json.dumps(obj)
        return obj
    except (TypeError, ValueError):
        return json.loads(json.dumps(obj, default=repr))


def write_replay(pid, failure, seed, tier):
    case = _json_safe(failure["case"])
    body = {
        "property": pid,
        "seed": seed,
        "tier": tier,
        "case": case,
        "failures": _json_safe(failure["failures"]),
    }
    text = json.dumps(body, indent=1, sort_keys=True)
    sha = hashlib.sha1(canon(case).encode("utf8", "surrogatepass")).hexdigest()[:12]
    d = os.path.join(HOME, "replays", pid)
    os.makedirs(d, exist_ok=True)
    path = os.path.join(d, f"{sha}.json")
    with open(path, "w", encoding="utf8") as fh:
        fh.write(text + "\n")
    return path


def run_corpus(mod, stats):
    """Replay saved regression inputs through the plain predicate."""
    failures = []
    n = 0
    for path in sorted(glob.glob(os.path.join(HOME, "corpus", mod.PID, "*.json"))):
        with open(path, encoding="utf8") as fh:
            body = json.load(fh)
        case = body["case"] if isinstance(body, dict) and "case" in body else body
        n += 1
        try:
            check_case(mod.PID, mod.replay_predicate, case, stats)
        except Violation as v:
            failures.append({"case": v.case, "failures": v.failures, "corpus": path})
    return n, failures


def run_probes(mod, stats):
    """Dedicated probes for open findings: print KNOWN-FINDING lines."""
    lines = []
    open_ = findings.open_for(mod.PID)
    probes = getattr(mod, "PROBES", {})
    for name, text in sorted(open_.items()):
        hits = 0
        total = 0
        for case in probes.get(name, []):
            total += 1
            fails = mod.replay_predicate(case, stats) or []
            if any(findings.classify(mod.PID, case, f) == name for f in fails):
                hits += 1
        lines.append((name, text, hits, total))
    return lines


def run_check(mod, tier, seed):
    t0 = time.time()
    pid = mod.PID
    nshards = getattr(mod, "SHARDS", {}).get(tier, NPROC)
    parent_stats = Stats()
    try:
        n_corpus, corpus_failures = run_corpus(mod, parent_stats)
        probe_lines = run_probes(mod, parent_stats)
    except Exception:  # noqa: BLE001
        print(f"HARNESS-ERROR property={pid} (corpus/probes)\n{traceback.format_exc()}")
        return 2
    args = [(mod.__name__, tier, seed, i, nshards) for i in range(nshards)]
    if corpus_failures:
        # a saved regression input already fails: report it, do not spend the search budget
        args = []
        results = []
    elif nshards == 1 or os.environ.get("VERIF_INPROC"):
        results = [_shard_entry(a) for a in args]
    else:
        ctxm = multiprocessing.get_context("fork")
        with ctxm.Pool(min(NPROC, nshards)) as pool:
            results = list(pool.imap_unordered(_shard_entry, args))
    results.sort(key=lambda r: r.get("shard", 0))
    errors = [r for r in results if "harness_error" in r]
    if errors:
        for r in errors[:3]:
            print(f"HARNESS-ERROR property={pid} shard={r['shard']}\n{r['harness_error']}")
        if corpus_failures:
            # a saved regression input failed through the plain predicate: that verdict stands on its own
            for f in corpus_failures:
                rel = os.path.relpath(f["corpus"], HOME)
                kinds = sorted({str(x.get("kind")) for x in f["failures"]})
                print(f"VIOLATION property={pid} replay={rel} kinds={','.join(kinds)}")
            return 1
        return 2

    merged = Stats()
    merged.evaluations = parent_stats.evaluations
    merged.nontrivial |= parent_stats.nontrivial
    merged.known.update(parent_stats.known)
    extra = {}
    failures = list(corpus_failures)
    for r in results:
        merged.evaluations += r["evaluations"]
        merged.nontrivial.update(r["nontrivial"])
        merged.classes.update(r["classes"])
        merged.known.update(r["known"])
        merged.excluded.update(r["excluded"])
        merged.inconclusive.update(r["inconclusive"])
        for s in r["samples"]:
            if len(merged.samples) < 6:
                merged.samples.append(s)
        for k, v in r["extra"].items():
            if isinstance(v, (int, float)) and not isinstance(v, bool):
                extra[k] = extra.get(k, 0) + v
            elif isinstance(v, dict):
                d = extra.setdefault(k, {})
                for kk, vv in v.items():
                    d[kk] = d.get(kk, 0) + vv if isinstance(vv, (int, float)) else vv
            else:
                extra[k] = v
        if r.get("failure"):
            failures.append(r["failure"])

    wall = time.time() - t0
    samples = merged.samples or getattr(mod, "FALLBACK_SAMPLES", [])
    coverage = {
        "evaluations": merged.evaluations,
        "distinct_nontrivial": len(merged.nontrivial),
        "rule": mod.RULE,
        "samples": _json_safe(samples),
        "classes": dict(sorted(merged.classes.items())),
        "known_finding_hits": dict(merged.known),
        "excluded_by_construction": dict(merged.excluded),
        "inconclusive": dict(merged.inconclusive),
        "corpus_cases_replayed": n_corpus,
        "shards": nshards,
        "engine": _engine_versions(),
    }
    if getattr(mod, "EXHAUSTIVE", None):
        coverage["exhaustive"] = extra.get("exhaustive_complete") == nshards
        coverage["exhaustive_domain"] = mod.EXHAUSTIVE
    coverage.update({k: v for k, v in extra.items() if k not in coverage})
    evidence = {
        "property_id": pid,
        "tier": tier,
        "seed": seed,
        "level": "exploration",
        "coverage": coverage,
        "assumptions": list(getattr(mod, "ASSUMPTIONS", [])),
        "wall_s": round(wall, 2),
        "violations": len(failures),
    }
    # VERIF_EVIDENCE_DIR: used when the checks are pointed at a scratch copy (mutation runs), so that
    # the committed evidence always describes /repo itself
    evidence_dir = os.environ.get("VERIF_EVIDENCE_DIR") or os.path.join(HOME, "evidence")
    os.makedirs(evidence_dir, exist_ok=True)
    with open(os.path.join(evidence_dir, f"{pid}.json"), "w", encoding="utf8") as fh:
        json.dump(evidence, fh, indent=1, sort_keys=True)
        fh.write("\n")

    print(
        f"{pid} tier={tier} seed={seed} evaluations={merged.evaluations} "
        f"distinct_nontrivial={len(merged.nontrivial)} shards={nshards} wall={wall:.1f}s"
    )
    for name, text, hits, total in probe_lines:
        search_hits = merged.known.get(name, 0)
        print(
            f"KNOWN-FINDING: property={pid} class={name} {text} "
            f"[probe {hits}/{total}, search hits {search_hits}]"
        )
        if total and not hits:
            print(f"NOTE: property={pid} class={name} probe no longer reproduces (fixed?)")
    if failures:
        seen = set()
        for f in failures:
            path = f.get("corpus") or write_replay(pid, f, seed, tier)
            if path in seen:
                continue
            seen.add(path)
            rel = os.path.relpath(path, HOME)
            kinds = sorted({str(x.get("kind")) for x in f["failures"]})
            print(f"VIOLATION property={pid} replay={rel} kinds={','.join(kinds)}")
        return 1
    if len(merged.nontrivial) < 2:
        print(f"HARNESS-ERROR property={pid}: generator produced <2 non-trivial cases")
        return 2
    return 0


def _engine_versions():
    out = {"python": sys.version.split()[0]}
    try:
        import hypothesis

        out["hypothesis"] = hypothesis.__version__
    except Exception:  # noqa: BLE001
        pass
    return out


def run_replay(mod, path):
    with open(path, encoding="utf8") as fh:
        body = json.load(fh)
    case = body["case"] if isinstance(body, dict) and "case" in body else body
    stats = Stats()
    fails = mod.replay_predicate(case, stats) or []
    unknown = triage(mod.PID, case, fails, stats)
    print(f"replay {path}: {len(fails)} failure(s), {len(unknown)} not explained by an open finding")
    for f in fails:
        print("  -", json.dumps(_json_safe(f), sort_keys=True)[:1500])
    if unknown:
        print(f"VIOLATION property={mod.PID} replay={path}")
        return 1
    return 0
