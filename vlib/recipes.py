"""Element-tree recipes: plain-JSON descriptions of DSL trees.

A node is ``{"id", "kind", "kw": {literal keywords}, "sub": {element-valued
keywords}}``; object classes add ``name``, ``props`` and optional ``base``;
``{"ref": id}`` re-uses the Python object built for an earlier node.

* ``build``      -> fresh statham objects through the public constructors only
* ``to_schema``  -> the Draft-6 schema the DSL documentation says the tree means
* ``mutate``     -> one-point changes (for C17)
* ``recipes``    -> Hypothesis strategy
"""
import copy

from hypothesis import strategies as st

from vlib import jsonvals as jv
from vlib import repo  # noqa: F401
from vlib.schemas import PATTERNS, FORMATS

from statham.schema.constants import NotPassed
from statham.schema.elements import (
    AllOf, AnyOf, Array, Boolean, Element, Integer, Not, Nothing, Null,
    Number, Object, OneOf, String,
)
from statham.schema.elements.meta import ObjectClassDict, ObjectMeta
from statham.schema.property import Property

KINDS = {
    "Element": Element, "String": String, "Integer": Integer, "Number": Number,
    "Boolean": Boolean, "Null": Null, "Array": Array, "Nothing": Nothing,
    "AnyOf": AnyOf, "OneOf": OneOf, "AllOf": AllOf, "Not": Not,
}
TYPE_NAME = {"String": "string", "Integer": "integer", "Number": "number",
             "Boolean": "boolean", "Null": "null", "Array": "array", "Object": "object"}

LIT_COMMON = ["default", "const", "enum", "description"]
LIT_NUM = ["minimum", "maximum", "exclusiveMinimum", "exclusiveMaximum", "multipleOf"]
LIT_STR = ["format", "pattern", "minLength", "maxLength"]
LIT_ARR = ["minItems", "maxItems", "uniqueItems"]
LIT_OBJ = ["required", "minProperties", "maxProperties"]
SUB_ARR = ["items", "additionalItems", "contains"]
SUB_OBJ = ["patternProperties", "additionalProperties", "propertyNames", "dependencies"]

ALLOWED_KW = {
    "Element": LIT_COMMON + LIT_NUM + LIT_STR + LIT_ARR + LIT_OBJ,
    "String": LIT_COMMON + LIT_STR,
    "Integer": LIT_COMMON + LIT_NUM,
    "Number": LIT_COMMON + LIT_NUM,
    "Boolean": LIT_COMMON,
    "Null": LIT_COMMON,
    "Array": LIT_COMMON + LIT_ARR,
    "Nothing": [],
    "AnyOf": ["default"], "OneOf": ["default"], "AllOf": ["default"], "Not": ["default"],
    "Object": LIT_COMMON + LIT_OBJ,
}
ALLOWED_SUB = {
    "Element": SUB_ARR + SUB_OBJ + ["properties"],
    "Array": SUB_ARR,
    "Object": SUB_OBJ + ["properties"],
}

# valid regexes (same meaning in ECMA-262 and Python) that need care when written into source text: regex escapes
# next to characters that repr()/JSON must escape themselves (TAB, newline, NBSP, both quote characters, a backslash)
ESCAPE_PATTERNS = ["^\\d+\t\\d+$", "\\w'\"", "a\\.b\n", "\\\\", "'", "\"'", "\\t", "\u00e9\\d", "\u00a0\\s",
                   "[\"']\\d", "^\\$", "\\d{2}\r", "\\'", "\x7f\\w"]
# (kind of the declared property, [(kind, keywords) of each pattern element]): untyped constraints of one family, and
# TYPED pattern elements that accept the same values but construct them differently (integer vs number)
OVERLAP_FAMILIES = [
    ("String", [("Element", {"minLength": 2}), ("Element", {"maxLength": 4}), ("String", {"pattern": "^a"})]),
    ("Number", [("Element", {"minimum": 0}), ("Integer", {"maximum": 10}), ("Element", {"multipleOf": 2})]),
    ("Integer", [("Number", {"minimum": 0}), ("Element", {"maximum": 10}), ("Number", {"multipleOf": 2})]),
    ("Integer", [("Number", {}), ("Element", {}), ("Number", {"minimum": -5})]),
    ("Element", [("Element", {"minLength": 2}), ("Number", {"maximum": 10}),
                 ("Element", {"enum": ["ab", 1, 2, None, "abcde"]})]),
]
PY_NAMES = ["a", "b", "c", "ab", "a_b", "class_", "x1", "value", "default", "description", "required", "enum"]
SOURCES = ["class", "a-b", "$id", "1x", "not", "d", "A", ""]
CLASS_NAMES = ["Foo", "Bar", "Baz", "Qux", "Quux", "Corge", "Grault", "Garply", "Waldo", "Fred", "Plugh", "Xyzzy",
               "Thud", "Wibble", "Wobble", "Flob"]


# ------------------------------------------------------------------ build
def build(recipe, env=None):
    """Build fresh statham objects for a recipe (two builds share nothing)."""
    env = {} if env is None else env
    _assert_unique_ids(recipe)
    return _build(copy.deepcopy(recipe), env)


def _assert_unique_ids(recipe):
    """A recipe that defines one id twice is a generator bug (two objects for one shared node)."""
    seen = set()

    def walk(node):
        if isinstance(node, list):
            for x in node:
                walk(x)
        elif isinstance(node, dict):
            if "kind" in node and "id" in node:
                if node["id"] in seen:
                    raise ValueError(f"harness bug: recipe defines node {node['id']} twice")
                seen.add(node["id"])
            for k, v in node.items():
                if k != "kw":
                    walk(v)

    walk(recipe)


def _sub(value, env):
    """Element-valued keyword value -> statham value."""
    if isinstance(value, bool):
        return value
    if isinstance(value, list):
        return [_sub(v, env) for v in value]
    if isinstance(value, dict) and ("kind" in value or "ref" in value):
        return _build(value, env)
    if isinstance(value, dict):  # mapping key -> recipe | list of names
        return {
            k: (list(v) if isinstance(v, list) and all(isinstance(x, str) for x in v) else _sub(v, env))
            for k, v in value.items()
        }
    raise ValueError(f"bad sub value {value!r}")


def _props(node, env):
    out = {}
    for p in node.get("props", []):
        out[p["name"]] = Property(
            _build(p["element"], env),
            required=p.get("required", False),
            **({"source": p["source"]} if p.get("source") is not None else {}),
        )
    return out


class PlainMixin:
    """An ordinary Python mix-in (no schema content): `class Child(PlainMixin, Parent)`."""

    def describe(self):
        return type(self).__name__


def _build(node, env):
    if "ref" in node:
        return env[node["ref"]]
    kind = node["kind"]
    kw = dict(node.get("kw", {}))
    # build order (shared nodes must be defined before they are referenced): base, sub, props, members
    base = _build(node["base"], env) if (kind == "Object" and node.get("base")) else Object
    sub = {k: _sub(v, env) for k, v in node.get("sub", {}).items()}
    if kind == "Object":
        classdict = ObjectClassDict()
        if node.get("doc") is not None:
            classdict["__doc__"] = node["doc"]  # class Foo(Object): """..."""  - the other way to give a description
        for name, prop in _props(node, env).items():
            classdict[name] = prop
        # one mix-in class per model class (a shared one could not be linearised along a chain)
        mixin = type("Mixin%s" % node.get("id", ""), (PlainMixin,), {})
        bases = {"first": (mixin, base), "last": (base, mixin)}.get(node.get("mixin"), (base,))
        obj = ObjectMeta(node["name"], bases, classdict, **kw, **sub)
    elif kind in ("AnyOf", "OneOf", "AllOf"):
        obj = KINDS[kind](*[_build(e, env) for e in node["elements"]], **kw)
    elif kind == "Not":
        obj = Not(_build(node["element"], env), **kw)
    elif kind == "Array":
        items = sub.pop("items", None)
        if items is None:
            items = Element()
        obj = Array(items, **kw, **sub)
    elif kind == "Nothing":
        obj = Nothing()
    else:
        if node.get("props") is not None and kind == "Element":
            sub["properties"] = _props(node, env)
        obj = KINDS[kind](**kw, **sub)
    if "id" in node:
        env[node["id"]] = obj
    return obj


# -------------------------------------------------------------- to_schema
def index(recipe, acc=None):
    """id -> node for every node of the recipe."""
    acc = {} if acc is None else acc
    if isinstance(recipe, list):
        for r in recipe:
            index(r, acc)
        return acc
    if not isinstance(recipe, dict):
        return acc
    if "kind" in recipe and "id" in recipe:
        acc[recipe["id"]] = recipe
    for v in recipe.values():
        if isinstance(v, (dict, list)):
            index(v, acc)
    return acc


def flat_class(node, idx):
    """Merged (kw, sub, props) of a class and its bases, per the documented rules."""
    if node.get("base"):
        base = node["base"]
        base = idx[base["ref"]] if "ref" in base else base
        kw, sub, props = flat_class(base, idx)
        kw, sub, props = dict(kw), dict(sub), [dict(p) for p in props]
    else:
        kw, sub, props = {}, {}, []
    kw.update(node.get("kw", {}))
    if node.get("doc") is not None and "description" not in node.get("kw", {}):
        kw["description"] = node["doc"]  # a class's own docstring is its description (the keyword wins)
    sub.update(node.get("sub", {}))
    for p in node.get("props", []):
        for i, q in enumerate(props):
            if q["name"] == p["name"]:
                props[i] = p
                break
        else:
            props.append(p)
    return kw, sub, props


def to_schema(recipe, idx=None):
    """Reference Draft-6 meaning of a recipe (classes inlined)."""
    idx = idx if idx is not None else index(recipe)
    node = recipe
    if "ref" in node:
        return to_schema(idx[node["ref"]], idx)
    kind = node["kind"]
    if kind == "Nothing":
        return False
    if kind == "Object":
        kw, sub, props = flat_class(node, idx)
    else:
        kw, sub, props = node.get("kw", {}), node.get("sub", {}), node.get("props")
    s = {}
    for k, v in kw.items():
        if k == "uniqueItems" and v is False:
            continue
        s[k] = copy.deepcopy(v)

    def conv(v):
        if isinstance(v, bool):
            return v
        if isinstance(v, list):
            return [conv(x) for x in v]
        if isinstance(v, dict) and ("kind" in v or "ref" in v):
            return to_schema(v, idx)
        if isinstance(v, dict):
            return {
                k: (list(x) if isinstance(x, list) and all(isinstance(y, str) for y in x) else conv(x))
                for k, x in v.items()
            }
        raise ValueError(v)

    for k, v in sub.items():
        s[k] = conv(v)
    if props:
        s["properties"] = {}
        req = list(s.get("required", []))
        for p in props:
            src = p["source"] if p.get("source") is not None else p["name"]
            s["properties"][src] = to_schema(p["element"], idx)
            if p.get("required") and src not in req:
                req.append(src)
        if req:
            s["required"] = req
    if kind in ("AnyOf", "OneOf", "AllOf"):
        key = kind[0].lower() + kind[1:]
        s[key] = [to_schema(e, idx) for e in node["elements"]]
    if kind == "Not":
        s["not"] = to_schema(node["element"], idx)
    if kind in TYPE_NAME:
        s["type"] = TYPE_NAME[kind]
    if kind == "Object":
        s["title"] = node["name"]
    if kind == "Array" and "items" not in s:
        s["items"] = {}
    return s


def classes_of(recipe):
    return [n for n in index(recipe).values() if n["kind"] == "Object"]


def has_props(recipe):
    return any(n.get("props") for n in index(recipe).values())


def size(recipe):
    return len(index(recipe))


# --------------------------------------------------------------- strategy
class RCfg:
    def __init__(self, depth=3, classes=True, inheritance=True, sharing=True,
                 renamed=True, explicit_required=True, defaults=True,
                 descriptions=True, nothing=True, formats=True,
                 bool_lookalike_literals=True, valid_defaults_only=False,
                 equal_to_default_kw=False, kw_max=3, literal_constraints=True,
                 compose_bias=0, extreme_literals=False, unicode_class_names=False):
        self.__dict__.update(locals())
        del self.__dict__["self"]


# literals that a lossy conversion (int -> float, float formatting, repr of a str) would not survive
EXTREME_LITERALS = [2 ** 53 + 1, 2 ** 63 - 1, 10 ** 23, -(2 ** 64) - 1, 1e22, 1e-7, 5e-324, 1.7976931348623157e308, -0.0,
                    0.1 + 0.2, 123456789.123456789, [2 ** 53 + 1], {"a": 10 ** 23}, "\u2028", "\x7f", "\ud7ff"]


def _literal(cfg):
    if getattr(cfg, "extreme_literals", False):
        return st.one_of(jv.json_values(max_leaves=4), jv.json_values(max_leaves=4), st.sampled_from(EXTREME_LITERALS))
    return jv.json_values(max_leaves=4)


def _lit_kw(draw, cfg, name):
    if name == "default":
        return draw(st.one_of(_literal(cfg), st.sampled_from([False, 0, "", [], {}, None])))
    if name == "const":
        return draw(_literal(cfg))
    if name == "enum":
        return draw(st.lists(_literal(cfg), min_size=1, max_size=3))
    if name == "description":
        return draw(st.sampled_from(["d", "some text", "two\nlines", "quote \" here",
                                     "a long description " * 9, "x" * 101, "é" * 120]))
    if name in ("minimum", "maximum", "exclusiveMinimum", "exclusiveMaximum"):
        if getattr(cfg, "extreme_literals", False) and draw(st.integers(0, 4)) == 0:
            return draw(st.sampled_from([x for x in EXTREME_LITERALS if isinstance(x, (int, float))]))
        return draw(jv.numbers)
    if name == "multipleOf":
        return draw(st.sampled_from([1, 2, 3, 0.5, 0.25, 1.5, 2.0]))
    if name == "format":
        return draw(st.sampled_from(FORMATS))
    if name == "pattern":
        if draw(st.integers(0, 3)) == 0:
            return draw(st.sampled_from(ESCAPE_PATTERNS))
        return draw(st.sampled_from(PATTERNS))
    if name in ("minLength", "maxLength", "minItems", "maxItems", "minProperties", "maxProperties"):
        return draw(st.integers(0, 3))
    if name == "uniqueItems":
        return draw(st.sampled_from([True, True, False])) if cfg.equal_to_default_kw else True
    if name == "required":
        return draw(st.lists(st.sampled_from(["a", "b", "class", "d", "a-b"]), max_size=2, unique=True))
    raise ValueError(name)


class _Gen:
    """Mutable generation context (ids, shareable nodes, class names)."""

    def __init__(self):
        self.next_id = 0
        self.done = []  # completed nodes that may be shared
        self.class_names = list(CLASS_NAMES)

    def new_id(self):
        self.next_id += 1
        return self.next_id


@st.composite
def recipes(draw, cfg=None, depth=None, _gen=None, kinds=None):
    cfg = cfg or RCfg()
    gen = _gen or _Gen()
    depth = cfg.depth if depth is None else depth
    node = draw(_node(cfg, depth, gen, kinds))
    return node


@st.composite
def _node(draw, cfg, depth, gen, kinds=None):
    # share an earlier object?
    if cfg.sharing and gen.done and depth < cfg.depth and draw(st.integers(0, 7)) == 0:
        target = draw(st.sampled_from(gen.done))
        return {"ref": target["id"]}
    leafs = ["Element", "String", "Integer", "Number", "Boolean", "Null"]
    if cfg.nothing:
        leafs.append("Nothing")
    inner = ["Array", "Array", "AnyOf", "OneOf", "AllOf", "Not", "Element"]
    if cfg.classes and gen.class_names:
        inner += ["Object", "Object", "Object"]
    inner = inner + ["AnyOf", "OneOf", "AllOf", "AllOf"] * cfg.compose_bias
    pool = kinds or (leafs if depth <= 0 else leafs + inner + inner)
    kind = draw(st.sampled_from(pool))
    if kind == "Object" and not gen.class_names:
        kind = "Element"
    node = {"id": gen.new_id(), "kind": kind, "kw": {}}
    sub_node = lambda: _node(cfg, depth - 1, gen)  # noqa: E731
    if kind == "Object":
        node["name"] = gen.class_names.pop(0)
        if getattr(cfg, "unicode_class_names", False) and draw(st.integers(0, 3)) == 0:
            # a legal identifier outside ASCII (class Café(Object): ...)
            node["name"] += draw(st.sampled_from(["\u00e9", "\u00df", "\u00dc", "\u00f1o"]))
        # the base must be complete before this node starts (build order)
        if cfg.inheritance and draw(st.integers(0, 3)) == 0:
            bases = [n for n in gen.done if n["kind"] == "Object"]
            if bases:
                node["base"] = {"ref": draw(st.sampled_from(bases))["id"]}
                # class Child(Mixin, Parent) / class Child(Parent, Mixin): a plain Python mix-in among the bases
                mix = draw(st.sampled_from([None, None, None, "first", "last"]))
                if mix:
                    node["mixin"] = mix

    allowed = list(ALLOWED_KW[kind])
    if not cfg.defaults and "default" in allowed:
        allowed.remove("default")
    if not cfg.descriptions and "description" in allowed:
        allowed.remove("description")
    if not cfg.formats and "format" in allowed:
        allowed.remove("format")
    if not cfg.explicit_required and "required" in allowed:
        allowed.remove("required")
    if not cfg.literal_constraints:
        allowed = [k for k in allowed if k not in ("const", "enum")]
    if allowed:
        chosen = draw(st.lists(st.sampled_from(allowed), max_size=cfg.kw_max, unique=True))
        for k in chosen:
            node["kw"][k] = _lit_kw(draw, cfg, k)

    if kind in ("AnyOf", "OneOf", "AllOf"):
        n = draw(st.integers(1, 3))
        if kind == "AllOf" and depth > 1 and draw(st.integers(0, 7)) == 0:
            # two array members: union-typed (or class) items first, a looser array second
            built_before = set(index(gen.done))
            item = draw(_node(cfg, depth - 2, gen, kinds=["AnyOf", "OneOf", "Object"] if (cfg.classes and gen.class_names)
                              else ["AnyOf", "OneOf"]))
            first = {"id": gen.new_id(), "kind": "Array", "kw": {}, "sub": {"items": item}}
            second = {"id": gen.new_id(), "kind": draw(st.sampled_from(["Array", "Element"])), "kw": {}}
            if second["kind"] == "Array":
                second["sub"] = {"items": draw(_node(cfg, 0, gen, kinds=["Element", "Number", "Element"]))}
            else:
                second["kw"] = {"minItems": draw(st.integers(0, 1))}
            node["elements"] = repair_refs([first, second], index(gen.done + [first, second]), built_before)
        elif kind == "AllOf" and draw(st.integers(0, 5)) == 0:
            # a union of same-typed alternatives next to a differently constructing member
            k1, k2 = draw(st.sampled_from([("Integer", "Number"), ("Number", "Integer"), ("String", "Element"),
                                           ("Integer", "Element"), ("Array", "Element")]))
            built_before = set(index(gen.done))
            union = {"id": gen.new_id(), "kind": draw(st.sampled_from(["AnyOf", "OneOf"])), "kw": {}}
            union["elements"] = [draw(_node(cfg, depth - 1, gen, kinds=[k1])) for _ in range(draw(st.integers(1, 2)))]
            other = draw(_node(cfg, depth - 1, gen, kinds=[k2]))
            node["elements"] = [union, other] if draw(st.booleans()) else [other, union]
            # generation order must equal build order (list order) for shared nodes: no refs across the two
            node["elements"] = repair_refs(node["elements"], index(gen.done + [union, other]), built_before)
        elif kind == "AllOf" and n > 1:
            # satisfiable conjunctions: one arbitrary member, the others mostly untyped
            # constraint elements (the shape the parser produces for sibling keywords)
            main_pos = draw(st.integers(0, n - 1))
            node["elements"] = [
                draw(sub_node()) if (i == main_pos or draw(st.integers(0, 2)) == 0)
                else draw(_node(cfg, depth - 1, gen, kinds=["Element"]))
                for i in range(n)
            ]
        elif kind != "AllOf" and draw(st.integers(0, 4)) == 0:
            # alternatives that accept common values but construct them differently (which branch builds
            # the result is observable: 1 vs 1.0, model instance vs untyped dict)
            pair = draw(st.sampled_from([("Integer", "Number"), ("Number", "Integer"), ("Element", "Number"),
                                         ("Object", "Element"), ("Element", "Object"), ("Number", "Element")]))
            members = []
            for k in pair:
                if k == "Object" and not (cfg.classes and gen.class_names):
                    k = "Element"
                members.append(draw(_node(cfg, max(depth - 1, 1) if k == "Object" else 0, gen, kinds=[k])))
            node["elements"] = members
        elif kind != "AllOf" and n > 1 and draw(st.integers(0, 3)) == 0:
            # alternatives of one type (annotations de-duplicate to a plain type)
            same = draw(st.sampled_from(["Integer", "Number", "String", "Array"]))
            node["elements"] = [draw(_node(cfg, depth - 1, gen, kinds=[same])) for _ in range(n)]
        else:
            node["elements"] = [draw(sub_node()) for _ in range(n)]
    elif kind == "Not":
        node["element"] = draw(sub_node())
    if kind in ALLOWED_SUB and depth > 0:
        subs = {}
        overlap_force = None
        cand = [k for k in ALLOWED_SUB[kind] if k != "properties"]
        chosen = draw(st.lists(st.sampled_from(cand), max_size=2, unique=True))
        if kind == "Array" and "items" not in chosen and draw(st.integers(0, 4)) > 0:
            chosen.append("items")
        for k in chosen:
            if k == "items":
                if draw(st.integers(0, 11)) == 0:
                    subs[k] = {"id": gen.new_id(), "kind": "Nothing", "kw": {}}  # "items": false
                elif draw(st.integers(0, 2)) == 0:
                    # never an empty tuple: `items: []` is not a valid Draft-6 schema
                    subs[k] = [draw(sub_node()) for _ in range(draw(st.integers(1, 3)))]
                else:
                    subs[k] = draw(sub_node())
            elif k in ("additionalItems", "additionalProperties"):
                subs[k] = draw(st.booleans()) if draw(st.booleans()) else draw(sub_node())
            elif k in ("contains", "propertyNames"):
                if k == "propertyNames":
                    subs[k] = {"id": gen.new_id(), "kind": "String", "kw": {
                        draw(st.sampled_from(["maxLength", "minLength"])): draw(st.integers(0, 3))}}
                else:
                    subs[k] = draw(sub_node())
            elif k == "patternProperties":
                pats = draw(st.lists(st.sampled_from(PATTERNS), min_size=1, max_size=3, unique=True))
                force = None
                if draw(st.integers(0, 2)) == 0:
                    # two or three patterns that all match ONE declared name, each contributing one constraint
                    # of a common family (a value can then satisfy some of them and violate another)
                    import re as _re
                    pname = draw(st.sampled_from(PY_NAMES))
                    pool = [p for p in PATTERNS if _re.search(p, pname)]
                    if len(pool) >= 2:
                        pats = draw(st.lists(st.sampled_from(pool), min_size=2, max_size=3, unique=True))
                        first, rest = draw(st.sampled_from(OVERLAP_FAMILIES))
                        rest = draw(st.permutations(rest))
                        subs[k] = {p: {"id": gen.new_id(), "kind": pk,
                                       "kw": dict(part) if cfg.literal_constraints else {}}
                                   for p, (pk, part) in zip(pats, rest)}
                        force = (pname, first)
                if force is None:
                    subs[k] = {p: draw(sub_node()) for p in pats}
                else:
                    overlap_force = force
            elif k == "dependencies":
                keys = draw(st.lists(st.sampled_from(["a", "b", "class"]), min_size=1, max_size=3, unique=True))

                def dep_value():
                    # (also the degenerate ones: nothing required alongside - [] -, and the schema nothing satisfies)
                    r = draw(st.integers(0, 7))
                    if r <= 2:
                        return draw(st.lists(st.sampled_from(["a", "b", "d"]), max_size=2, unique=True))
                    if r == 3:
                        return []
                    if r == 4 and cfg.nothing:
                        return {"id": gen.new_id(), "kind": "Nothing", "kw": {}}
                    return draw(sub_node())

                subs[k] = {kk: dep_value() for kk in keys}
        if isinstance(subs.get("items"), list) and "additionalItems" not in subs and draw(st.integers(0, 2)) > 0:
            # tuple items are only interesting together with additionalItems
            subs["additionalItems"] = (draw(_node(cfg, 0, gen, kinds=["String", "Integer", "Number", "Boolean", "Null"]))
                                       if draw(st.integers(0, 2)) > 0 else draw(st.booleans()))
        if subs:
            node["sub"] = subs
        want_props = kind == "Object" or (kind == "Element" and draw(st.integers(0, 2)) == 0)
        if want_props:
            node["props"] = draw(_props_strategy(cfg, depth, gen,
                                                 patterns=tuple(sorted(subs.get("patternProperties", {}))),
                                                 force=overlap_force))
            if "required" in node["kw"] and node["props"] and draw(st.booleans()):
                # explicit lists that mention declared properties - by JSON name and by Python name
                p0 = draw(st.sampled_from(node["props"]))
                extra = draw(st.sampled_from([p0["name"], p0["source"] if p0.get("source") is not None else p0["name"]]))
                if extra not in node["kw"]["required"]:
                    node["kw"]["required"] = node["kw"]["required"] + [extra]
            if node.get("base"):
                # effective JSON names must stay unique in the merged class (ambiguous otherwise)
                idx_done = index(gen.done)
                _, _, inherited = flat_class(idx_done[node["base"]["ref"]], idx_done)
                eff = lambda p: p["source"] if p.get("source") is not None else p["name"]  # noqa: E731
                for p in node["props"]:
                    if any(eff(q) == eff(p) and q["name"] != p["name"] for q in inherited):
                        p["source"] = "zz%d%s" % (node["id"], p["name"])  # fresh, unambiguous JSON name
    elif kind == "Object":
        node["props"] = []
    if kind in ("Object", "String", "Integer", "Element", "Array", "Number"):
        gen.done.append(node)
    return node


@st.composite
def _props_strategy(draw, cfg, depth, gen, patterns=(), force=None):
    names = draw(st.lists(st.sampled_from(PY_NAMES), min_size=0 if depth <= 0 else 1, max_size=3, unique=True))
    if force is not None:
        names = [force[0]] + [n for n in names if n != force[0]][:2]
    elif patterns and draw(st.booleans()):
        # a declared name that several of the node's patterns match: governed by all of them at once
        import re as _re
        hits = sorted(PY_NAMES, key=lambda n: -sum(1 for p in patterns if _re.search(p, n)))
        best = [n for n in hits if sum(1 for p in patterns if _re.search(p, n)) ==
                sum(1 for p in patterns if _re.search(p, hits[0]))]
        pick = draw(st.sampled_from(best))
        if pick not in names:
            names = [pick] + names[:2]
    props = []
    used_sources = set()
    for name in names:
        source = None
        if force is not None and name == force[0]:
            props.append({"name": name, "source": None, "required": draw(st.booleans()),
                          "element": {"id": gen.new_id(), "kind": force[1], "kw": {}}})
            used_sources.add(name)
            continue
        if cfg.renamed and draw(st.integers(0, 2)) == 0:
            source = draw(st.sampled_from(SOURCES))
        eff = source if source is not None else name
        if eff in used_sources or (source is not None and source in names):
            source, eff = None, name
        if eff in used_sources:
            continue
        used_sources.add(eff)
        props.append({
            "name": name,
            "source": source,
            "required": draw(st.booleans()),
            "element": draw(_node(cfg, depth - 1, gen)),
        })
    # a renamed property's python name must not be another property's source
    return props


@st.composite
def inheritance_family(draw):
    """Base model + a subclass that ADDS something only it enforces (a required property, additionalProperties false,
    minProperties), both used in one tree - the base first. Whatever a class works out on first use (validators, property
    lookups) and keeps on the class object is found by the subclass through attribute lookup unless it is kept per class.
    -> (recipe, values): the values separate base and subclass behaviour."""
    base = {"id": 2, "kind": "Object", "name": "Account", "kw": {}, "props": [
        {"name": "a", "source": draw(st.sampled_from([None, "a-b"])), "required": False,
         "element": {"id": 3, "kind": "String", "kw": {}}}]}
    extra = draw(st.sampled_from(["required-prop", "required-prop", "additional-false", "min-properties", "number-prop"]))
    child = {"id": 4, "kind": "Object", "name": "User", "kw": {}, "base": {"ref": 2}, "props": []}
    if extra == "required-prop":
        child["props"] = [{"name": "b", "source": None, "required": True, "element": {"id": 5, "kind": "Integer", "kw": {}}}]
    elif extra == "number-prop":
        child["props"] = [{"name": "b", "source": draw(st.sampled_from([None, "class"])), "required": False,
                           "element": {"id": 5, "kind": "Number", "kw": {"default": 1}}}]
    elif extra == "additional-false":
        child["sub"] = {"additionalProperties": False}
    else:
        child["kw"] = {"minProperties": 2}
    a = base["props"][0]["source"] or "a"
    b = (child["props"][0]["source"] or "b") if child["props"] else "b"
    root = {"id": 1, "kind": draw(st.sampled_from(["Element", "Object"])), "kw": {}, "props": [
        {"name": "base", "source": None, "required": False, "element": base},
        {"name": "child", "source": None, "required": False, "element": child},
        {"name": "many", "source": None, "required": False, "element":
            {"id": 6, "kind": "Array", "kw": {}, "sub": {"items": {"ref": 4}}}}]}
    if root["kind"] == "Object":
        root["name"] = "Holder"
    values = [{"base": {a: "x"}}, {"base": {a: "x"}, "child": {a: "x"}}, {"child": {a: "x", b: 1}},
              {"child": {a: "x", b: 2, "zz": 1}}, {"base": {a: "x", "zz": 1}, "child": {a: "y", b: 3}},
              {"many": [{a: "x"}, {a: "x", b: 1}]}, {"child": {}}, {"base": {}, "child": {b: 1}}]
    return root, values


def twin(recipe, gen):
    """Structurally identical copy with fresh ids and fresh class names (None if names run out)."""
    new = copy.deepcopy(repair_refs(copy.deepcopy(recipe), index(recipe)))
    ids = {}

    def visit(node):
        if isinstance(node, list):
            return [visit(x) for x in node]
        if not isinstance(node, dict):
            return node
        if "ref" in node and "kind" not in node:
            return {"ref": ids[node["ref"]]}
        out = {}
        if "kind" in node and "id" in node:
            ids[node["id"]] = gen.new_id()
        for k, v in node.items():
            if k == "id":
                out[k] = ids[v]
            elif k == "name" and node.get("kind") == "Object":
                if not gen.class_names:
                    raise IndexError("no class names left")
                out[k] = gen.class_names.pop(0)
            elif k in ("kw",):
                out[k] = copy.deepcopy(v)
            elif k == "base":
                out[k] = visit(v)
            else:
                out[k] = visit(v) if isinstance(v, (dict, list)) else v
        return out

    # build order: base, sub, props, elements/element -> ids must be assigned before refs are seen
    ordered = {}
    for key in ("id", "kind", "name", "kw", "base", "sub", "props", "elements", "element"):
        if key in new:
            ordered[key] = new[key]
    for key in new:
        ordered.setdefault(key, new[key])

    def order(node):
        if isinstance(node, list):
            return [order(x) for x in node]
        if not isinstance(node, dict):
            return node
        if "kind" not in node:
            return {k: order(v) for k, v in node.items()}
        out = {}
        for key in ("id", "kind", "name", "kw", "base", "sub", "props", "elements", "element"):
            if key in node:
                out[key] = order(node[key]) if key not in ("kw",) else node[key]
        return out

    try:
        return visit(order(ordered))
    except (IndexError, KeyError):
        return None


def repair_refs(new, old_index, defined=None):
    """After a subtree was removed: re-define dangling refs at their first use (build order).

    ``defined``: ids already built before ``new`` (refs to them are left alone).
    """
    defined = set(defined or ())

    def visit(node):
        if isinstance(node, list):
            for i, x in enumerate(node):
                node[i] = visit(x)
            return node
        if not isinstance(node, dict):
            return node
        if "ref" in node and "kind" not in node:
            if node["ref"] in defined:
                return node
            return visit(copy.deepcopy(old_index[node["ref"]]))
        if "kind" not in node:  # mapping of key -> recipe | names
            for k in list(node):
                node[k] = visit(node[k])
            return node
        if node.get("id") in defined:
            return {"ref": node["id"]}  # already (re-)defined at an earlier use: keep one definition
        if node.get("base"):
            node["base"] = visit(node["base"])
        for k in list(node.get("sub", {})):
            node["sub"][k] = visit(node["sub"][k])
        for p in node.get("props") or []:
            p["element"] = visit(p["element"])
        if "elements" in node:
            node["elements"] = [visit(e) for e in node["elements"]]
        if "element" in node:
            node["element"] = visit(node["element"])
        if "id" in node:
            defined.add(node["id"])
        return node

    return visit(new)


# ----------------------------------------------------------------- mutate
@st.composite
def mutate(draw, recipe):
    """One-point change somewhere in the recipe. -> (new recipe, description)."""
    new = copy.deepcopy(recipe)
    nodes = [n for n in index(new).values()]
    node = draw(st.sampled_from(nodes))
    ops = []
    kind = node["kind"]
    kw = node.setdefault("kw", {})
    if kw:
        ops += ["drop-kw", "lookalike-kw", "change-kw"]
    if ALLOWED_KW.get(kind):
        ops.append("add-kw")
    if node.get("props"):
        ops += ["prop-required", "prop-source", "prop-element", "prop-drop"]
    if kind in ("String", "Integer", "Number", "Boolean", "Null", "Element", "AnyOf", "OneOf", "AllOf"):
        ops.append("kind")
    if kind in ("AnyOf", "OneOf", "AllOf") and len(node["elements"]) > 1:
        ops.append("reorder")
        ops += ["nest", "nest"]
    if kind == "Object":
        ops.append("rename-class")
    maps = [k for k in ("dependencies", "patternProperties") if isinstance(node.get("sub", {}).get(k), dict)
            and len(node["sub"][k]) > 1]
    if maps or len(node.get("props") or []) > 1:
        # the same keyword -> value map written in another order (maps compare equal whatever their order)
        ops += ["reorder-map", "reorder-map"]
    if not ops:
        ops = ["add-kw"] if ALLOWED_KW.get(kind) else ["noop"]
    op = draw(st.sampled_from(ops))
    cfg = RCfg()
    if op == "drop-kw":
        k = draw(st.sampled_from(sorted(kw)))
        del kw[k]
    elif op == "lookalike-kw":
        # bool lookalikes only for literal keywords; counts/bounds only int<->float
        cands = [(k, alt) for k in sorted(kw) for alt in jv.lookalike(kw[k])
                 if k in ("default", "const", "enum")
                 or (k not in ("uniqueItems", "required", "description", "format", "pattern")
                     and not isinstance(alt, bool))]
        if cands:
            k, alt = draw(st.sampled_from(cands))
            kw[k] = alt
            op = f"lookalike-kw:{k}"
        else:
            op = "noop"
    elif op == "change-kw":
        k = draw(st.sampled_from(sorted(kw)))
        kw[k] = _lit_kw(draw, cfg, k)
    elif op == "add-kw":
        k = draw(st.sampled_from(ALLOWED_KW[kind]))
        kw[k] = _lit_kw(draw, cfg, k)
    elif op.startswith("prop-"):
        p = draw(st.sampled_from(node["props"]))
        if op == "prop-required":
            p["required"] = not p.get("required", False)
        elif op == "prop-source":
            p["source"] = "zz" if p.get("source") != "zz" else None
        elif op == "prop-element":
            p["element"] = {"id": 9000, "kind": draw(st.sampled_from(["String", "Integer", "Element", "Null"])), "kw": {}}
        elif op == "prop-drop":
            node["props"].remove(p)
    elif op == "kind":
        swaps = {"String": ["Element", "Integer"], "Integer": ["Number", "Element"],
                 "Number": ["Integer"], "Boolean": ["Null", "Element"], "Null": ["Boolean"],
                 "Element": ["Nothing"], "AnyOf": ["OneOf", "AllOf"], "OneOf": ["AnyOf"],
                 "AllOf": ["AnyOf"]}
        newkind = draw(st.sampled_from(swaps[kind]))
        node["kind"] = newkind
        node["kw"] = {k: v for k, v in kw.items() if k in ALLOWED_KW[newkind]}
        if newkind == "Nothing":
            node.pop("sub", None)
            node.pop("props", None)
    elif op == "reorder":
        node["elements"] = list(reversed(node["elements"]))
    elif op == "reorder-map":
        for k in maps:
            node["sub"][k] = dict(reversed(list(node["sub"][k].items())))
        if len(node.get("props") or []) > 1:
            node["props"] = list(reversed(node["props"]))
    elif op == "nest":
        # the first two members wrapped in a composition of the SAME kind: oneOf(oneOf(a, b), c) is not oneOf(a, b, c)
        inner = {"id": max(index(new)) + 1000, "kind": kind, "kw": {}, "elements": node["elements"][:2]}
        node["elements"] = [inner] + node["elements"][2:]
        if len(node["elements"]) == 1:
            node["elements"].append({"id": max(index(new)) + 1001, "kind": "Element", "kw": {"minimum": 0}})
    elif op == "rename-class":
        node["name"] = node["name"] + "X"
    new = repair_refs(new, index(recipe))
    return new, op
