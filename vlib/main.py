"""./check <Cxx> [--tier quick|thorough] [--replay file]"""
import argparse
import glob
import importlib
import os
import sys
import traceback


def find_module(pid):
    here = os.path.join(os.path.dirname(os.path.dirname(os.path.abspath(__file__))), "props")
    hits = glob.glob(os.path.join(here, f"{pid.lower()}_*.py")) + glob.glob(
        os.path.join(here, f"{pid.lower()}.py")
    )
    if not hits:
        raise SystemExit(f"no module for {pid}")
    return "props." + os.path.basename(hits[0])[:-3]


def main(argv=None):
    ap = argparse.ArgumentParser()
    ap.add_argument("pid")
    ap.add_argument("--tier", default=os.environ.get("VERIF_TIER") or "quick")
    ap.add_argument("--replay")
    ap.add_argument("--seed", type=int)
    ns = ap.parse_args(argv)
    if ns.tier not in ("quick", "thorough"):
        ns.tier = "quick"
    seed = ns.seed
    if seed is None:
        try:
            seed = int(os.environ.get("VERIF_SEED", "1"))
        except ValueError:
            seed = 1
    try:
        from vlib import runner

        mod = importlib.import_module(find_module(ns.pid.upper()))
        if ns.replay:
            return runner.run_replay(mod, ns.replay)
        return runner.run_check(mod, ns.tier, seed)
    except SystemExit:
        raise
    except Exception:  # noqa: BLE001
        print(f"HARNESS-ERROR property={ns.pid}\n{traceback.format_exc()}")
        return 2


if __name__ == "__main__":
    sys.exit(main())
