"""Known-findings file and classifier registry.

``known-findings.txt`` holds lines

    open: property=<id> class=<classifier> <what fails>
    fixed: property=<id> <commit> <what failed>

Only ``open`` lines suppress anything, and only failures matched by the named
classifier (a predicate over the failing case and the observed mismatch,
registered by the property module).  The file is never written at run time.
"""
import os
import re

HOME = os.environ.get("VERIF_HOME") or os.path.dirname(os.path.dirname(os.path.abspath(__file__)))
PATH = os.path.join(HOME, "known-findings.txt")

_CLASSIFIERS = {}


def classifier(pid, name):
    """Decorator: register ``fn(case, failure) -> bool`` as pid/name."""

    def deco(fn):
        _CLASSIFIERS[(pid, name)] = fn
        return fn

    return deco


def load():
    """-> {pid: {class: text}} for open findings, [fixed lines]."""
    open_, fixed = {}, []
    if not os.path.exists(PATH):
        return open_, fixed
    for line in open(PATH, encoding="utf8"):
        line = line.strip()
        if not line or line.startswith("#"):
            continue
        m = re.match(r"open:\s+property=(\S+)\s+class=(\S+)\s+(.*)$", line)
        if m:
            open_.setdefault(m.group(1), {})[m.group(2)] = m.group(3)
            continue
        m = re.match(r"fixed:\s+property=(\S+)\s+(\S+)\s+(.*)$", line)
        if m:
            fixed.append((m.group(1), m.group(2), m.group(3)))
    return open_, fixed


_OPEN = None


def open_for(pid):
    global _OPEN
    if _OPEN is None:
        _OPEN = load()[0]
    return _OPEN.get(pid, {})


def is_open(pid, name):
    return name in open_for(pid)


def classify(pid, case, failure):
    """Name of the open finding that explains this failure, or None."""
    for name in open_for(pid):
        fn = _CLASSIFIERS.get((pid, name))
        if fn is None:
            continue
        try:
            if fn(case, failure):
                return name
        except Exception:  # noqa: BLE001 - a broken classifier suppresses nothing
            continue
    return None
