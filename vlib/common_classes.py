"""Classifier helpers shared by several properties' open findings."""
from vlib import recipes as R
from vlib import repo  # noqa: F401


def renamed_pynames_recipe(recipe):
    """Python names of declared properties whose JSON name differs."""
    out = set()
    for node in R.index(recipe).values():
        for p in node.get("props") or []:
            if p.get("source") is not None and p["source"] != p["name"]:
                out.add(p["name"])
    return out


def renamed_pynames_schema(schema):
    """Python images (as the parser computes them) that differ from the JSON name."""
    from statham.schema.parser import _parse_attribute_name
    from vlib.schemas import walk

    out = set()

    def visit(s, path):
        if isinstance(s, dict):
            names = list(s.get("properties", {}) or {}) + list(s.get("required", []) or [])
            for name in names:
                if isinstance(name, str):
                    try:
                        image = _parse_attribute_name(name)
                    except Exception:  # noqa: BLE001
                        continue
                    if image != name:
                        out.add(image)

    walk(schema, visit)
    return out


def has_key_in(value, names, depth=0):
    if depth > 60:
        return False
    if isinstance(value, dict):
        return any(k in names for k in value) or any(has_key_in(v, names, depth + 1) for v in value.values())
    if isinstance(value, list):
        return any(has_key_in(v, names, depth + 1) for v in value)
    return False


def strip_keys(value, names, counter=None, depth=0):
    """Remove colliding keys (exclusion by construction); counts removals."""
    if depth > 60:
        return value
    if isinstance(value, dict):
        out = {}
        for k, v in value.items():
            if k in names:
                if counter is not None:
                    counter[0] += 1
                continue
            out[k] = strip_keys(v, names, counter, depth + 1)
        return out
    if isinstance(value, list):
        return [strip_keys(v, names, counter, depth + 1) for v in value]
    return value
