"""Subprocess driver for C09: emit digests of everything the generator produces for each document.

usage: python c09_driver.py <repo_dir> <scratch_dir> [reverse]   (reverse: documents in the opposite order -
the output for a document must not depend on what the process generated before it)
<scratch_dir>/docN/{a.json,...}; prints one JSON object: {docN: {...}}
"""
import hashlib
import json
import os
import sys
import warnings

repo_dir, scratch = sys.argv[1], sys.argv[2]
sys.path.insert(0, repo_dir)
warnings.filterwarnings("ignore")

from json_ref_dict import RefDict, materialize  # noqa: E402

import statham  # noqa: E402
from statham.__main__ import main  # noqa: E402
from statham.schema.parser import parse  # noqa: E402
from statham.serializers import serialize_json  # noqa: E402
from statham.serializers.orderer import orderer  # noqa: E402
from statham.titles import title_labeller  # noqa: E402

assert os.path.realpath(statham.__file__).startswith(os.path.realpath(repo_dir) + os.sep)


def sha(text):
    return hashlib.sha256(text.encode("utf8", "surrogatepass")).hexdigest()[:20]


out = {}
for name in sorted(os.listdir(scratch), reverse=len(sys.argv) > 3 and sys.argv[3] == "reverse"):
    d = os.path.join(scratch, name)
    if not os.path.isdir(d):
        continue
    uri = os.path.join(d, "a.json") + "#/"
    rec = {}
    try:
        text = main(uri)
        rec["python"] = sha(text)
        rec["python_head"] = [l for l in text.splitlines() if l.startswith("class ")][:12]
    except Exception as exc:  # noqa: BLE001
        rec["python"] = "raised:" + type(exc).__name__
    try:
        schema = materialize(RefDict.from_uri(uri), context_labeller=title_labeller())
        elements = parse(schema)
        rec["json"] = sha(json.dumps(serialize_json(*elements)))
        rec["classes"] = [c.__name__ for c in orderer(*elements)]
    except Exception as exc:  # noqa: BLE001
        rec["json"] = "raised:" + type(exc).__name__
    out[name] = rec
print(json.dumps(out))
