"""Owned thread scheduler: real threads, exactly one runnable at a time.

A ``sys.settrace`` line hook inside statham frames counts *switch points*.  The schedule is a
list of ``(gap, pick)`` pairs: let the running thread execute ``gap`` more points, then hand
the baton to the ``pick``-th next live thread.  When the schedule is exhausted the threads run
to completion one after the other.  A run is therefore a deterministic function of
(functions, schedule) and shrinks / replays like any other generated case.
"""
import sys
import threading


class Scheduler:
    def __init__(self, schedule, marker="/statham/", focus=(), dense=()):
        self.schedule = [(max(0, int(g)), max(1, int(p))) for g, p in schedule]
        # focus entries (module suffix, n, pick): additionally switch at the n-th line event executed
        # inside that module - reaches short critical sections that a uniform gap rarely hits
        self.focus = {}
        for module, nth, pick in focus:
            self.focus.setdefault(module, {})[int(nth)] = max(1, int(pick))
        self.module_counts = {}
        # dense modules: hand the baton on at EVERY line executed inside them (finest interleaving of
        # that module's code between the threads), up to a cap so that a run stays short
        self.dense = set(dense)
        self.dense_left = 400
        self.marker = marker
        self.cv = threading.Condition()
        self.current = None
        self.alive = []
        self.idx = 0
        self.countdown = self.schedule[0][0] if self.schedule else None
        self.points = 0
        self.switches = 0
        self.errors = []

    # -- called by the running thread at every traced line --------------
    def _point(self, tid, frame=None):
        self.points += 1
        pick = None
        if self.dense and frame is not None and self.dense_left > 0:
            if frame.f_code.co_filename.split(self.marker)[-1] in self.dense:
                self.dense_left -= 1
                pick = 1
        if pick is None and self.focus and frame is not None:
            module = frame.f_code.co_filename.split(self.marker)[-1]
            wanted = self.focus.get(module)
            if wanted is not None:
                count = self.module_counts.get(module, 0)
                self.module_counts[module] = count + 1
                pick = wanted.get(count)
        if pick is None:
            if self.countdown is None:
                return
            if self.countdown > 0:
                self.countdown -= 1
                return
            pick = self.schedule[self.idx][1]
            self.idx += 1
            self.countdown = self.schedule[self.idx][0] if self.idx < len(self.schedule) else None
        with self.cv:
            if len(self.alive) < 2:
                return
            pos = self.alive.index(tid)
            target = self.alive[(pos + pick) % len(self.alive)]
            if target == tid:
                return
            self.switches += 1
            self.current = target
            self.cv.notify_all()
            while self.current != tid:
                self.cv.wait()

    def _tracer(self, tid):
        marker = self.marker

        def local(frame, event, arg):
            if event == "line":
                self._point(tid, frame)
            return local

        def global_(frame, event, arg):
            if marker in frame.f_code.co_filename:
                return local
            return None

        return global_

    def _body(self, tid, fn, results):
        with self.cv:
            while self.current != tid:
                self.cv.wait()
        sys.settrace(self._tracer(tid))
        try:
            results[tid] = fn()
        except BaseException as exc:  # noqa: BLE001 - reported to the caller
            self.errors.append((tid, exc))
        finally:
            sys.settrace(None)
            with self.cv:
                pos = self.alive.index(tid)
                self.alive.remove(tid)
                if self.alive:
                    self.current = self.alive[pos % len(self.alive)]
                else:
                    self.current = None
                self.cv.notify_all()

    def run(self, fns):
        """Run the functions in threads under the schedule. -> list of results."""
        n = len(fns)
        results = [None] * n
        self.alive = list(range(n))
        threads = [threading.Thread(target=self._body, args=(i, fn, results), daemon=True)
                   for i, fn in enumerate(fns)]
        for t in threads:
            t.start()
        with self.cv:
            self.current = 0
            self.cv.notify_all()
        for t in threads:
            t.join(timeout=120)
        if any(t.is_alive() for t in threads):
            raise RuntimeError("scheduler deadlock: a thread did not finish within 120 s")
        if self.errors:
            raise self.errors[0][1]
        return results
