"""Pristine-process oracle: build a recipe through the public constructors in a NEW interpreter and validate values.

usage: python -m vlib.fresh_driver      (stdin: {"recipe": ..., "values": [...]}; stdout: [[tag, canon(plain result)], ...])

Used when "a freshly constructed element" of the same process cannot be trusted to be free of process-wide state
(C13: "no state from an earlier call or an earlier configuration influences a later verdict").
"""
import json
import sys
import warnings

warnings.filterwarnings("ignore")

from vlib import observe, recipes as R  # noqa: E402
from vlib.jsonvals import canon  # noqa: E402


def main():
    observe.register_formats()
    job = json.load(sys.stdin)
    out = []
    for value in job["values"]:
        element = R.build(job["recipe"])
        got = observe.verdict(element, value)
        out.append([got[0], canon(observe.plain(got[1])) if got[0] == "ok" else None])
    print(json.dumps(out))


if __name__ == "__main__":
    main()
