import json,glob,collections,sys
pid=sys.argv[1]; n=int(sys.argv[2]) if len(sys.argv)>2 else 700
c=collections.Counter(); ex={}
for p in glob.glob(f'/verif/replays/{pid}/*.json'):
    b=json.load(open(p))
    for f in b['failures']:
        c[f['kind']]+=1; ex.setdefault(f['kind'],(p,b['case'],f))
print(c)
for k,(p,s,f) in ex.items():
    print('==',k,p); print('  case:',json.dumps({a:b for a,b in s.items() if a!='values'})[:n]); print('  fail:',json.dumps({a:b for a,b in f.items()})[:n*2])
