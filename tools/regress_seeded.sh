#!/bin/sh
# Re-verify every seeded change against its property's own quick check (takes hours: ~2 min per change).
# usage: tools/regress_seeded.sh <result dir>     -> one line per change on stdout, details in <result dir>/<id>.json
cd "$(dirname "$0")/.."
res="${1:-/tmp/regress}"; mkdir -p "$res"
for d in seeded/C*; do
  n=$(basename $d); c=$(echo $n | cut -c1-3)
  [ -f $d/patch.diff ] || continue
  tools/eval_seed.py $d $c > "$res/$n.json" 2>&1
  /venv/bin/python - "$res/$n.json" $n <<'PY'
import json,sys
try:
    d=json.load(open(sys.argv[1]))
    if not d.get('patch_applies', True): print(sys.argv[2], 'PATCH-DOES-NOT-APPLY')
    else: print(sys.argv[2], 'confirmed' if d.get('confirmed') else 'NOT-CONFIRMED', 'CAUGHT' if d.get('caught_by_own_check') else 'MISSED', d.get('checks',{}).get(d['property'],{}).get('kinds'))
except Exception as e: print(sys.argv[2], 'unreadable', e)
PY
done
