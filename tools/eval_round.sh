#!/bin/sh
# usage: tools/eval_round.sh <worktree root with Cxx/_seed> <result dir> [ids...]
cd "$(dirname "$0")/.."
root="$1"; res="$2"; shift 2
mkdir -p "$res"
ids="$@"; [ -z "$ids" ] && ids="C01 C02 C03 C04 C05 C06 C07 C08 C09 C10 C11 C12 C13 C14 C15 C16 C17 C18 C19 C20"
for c in $ids; do
  [ -f "$root/$c/_seed/patch.diff" ] || { echo "$c: no seed"; continue; }
  tools/eval_seed.py "$root/$c/_seed" "$c" > "$res/$c.json" 2>&1
  /venv/bin/python - "$res/$c.json" <<'PY'
import json,sys
try:
    d=json.load(open(sys.argv[1]))
    print(d['property'], 'confirmed' if d.get('confirmed') else 'NOT-CONFIRMED(demo %s/%s tests %s)'%(d.get('demo_without_change'),d.get('demo_with_change'),d.get('tests_pass')), 'CAUGHT' if d.get('caught_by_own_check') else 'MISSED', d.get('checks',{}).get(d['property']))
except Exception as e:
    print(sys.argv[1], 'unreadable', e)
PY
done
