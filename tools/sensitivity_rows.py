#!/venv/bin/python
"""Print the SENSITIVITY.md table rows for the seeded changes of one round: tools/sensitivity_rows.py r5"""
import glob
import json
import os
import sys

suffix = sys.argv[1] if len(sys.argv) > 1 else ""
home = os.path.dirname(os.path.dirname(os.path.abspath(__file__)))
for d in sorted(glob.glob(os.path.join(home, "seeded", "C[0-9][0-9]" + ("-" + suffix if suffix else "")))):
    m = json.load(open(os.path.join(d, "meta.json")))
    pid = m["property"]
    run = (m.get("checks_run") or {}).get(pid, {})
    kinds = ", ".join(run.get("kinds") or []) or "-"
    caught = kinds if m.get("caught_by_own_check_quick") else "NOT CAUGHT"
    first = m.get("first_pass")
    if first is not None:
        caught += " (first pass: %s)" % ("caught" if first.get("caught_by_own_check_quick") else "missed")
    clean = lambda s: (s or "").replace("|", "/").replace("\n", " ")[:240]  # noqa: E731
    suite = (m.get("test_suite") or "").split(" in ")[0]
    print("| %s | %s | %s | %s | %s |" % (os.path.basename(d), clean(m.get("summary")), clean(m.get("needs")), caught, suite))
