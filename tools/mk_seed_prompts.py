#!/venv/bin/python
"""Write the briefs for one round of independently seeded changes (one per property).

usage: tools/mk_seed_prompts.py <worktree root, e.g. /tmp/wt6> <round number>
Each brief contains ONLY the property text, the one-line summaries of the earlier rounds' changes for that
property (so that the new one differs) and working instructions - nothing else from /verif.
Create the worktrees first:  git -C /repo worktree add -q --detach <root>/Cxx HEAD
"""
import json
import os
import sys

root, rnd = sys.argv[1], int(sys.argv[2])
home = os.path.dirname(os.path.dirname(os.path.abspath(__file__)))
props = {json.loads(l)["id"]: json.loads(l) for l in open(os.path.join(home, "properties.jsonl"))}
os.makedirs(os.path.join(root, "prompts"), exist_ok=True)

THEMES = {
    6: ("Make it look like a change a maintainer would plausibly merge (an optimisation, a refactor, a clean-up, a "
        "well-meant bug fix). All inputs must be LEGAL (schemas valid under JSON Schema Draft 6, DSL calls with "
        "documented arguments and sensible usage). Aim at what generic generated tests rarely reach: BOUNDARY values "
        "(empty containers, 0 / -0.0 / 1e-9 / huge numbers, empty strings, very long or non-ASCII text, the last "
        "element of a list, exactly-at-the-limit counts); the SECOND or THIRD use of the same object (validate twice, "
        "serialise twice, parse the same dict object twice, the same element object placed in two trees, a class "
        "used as a property of itself's sibling); the state left behind after a REJECTED value or a raised error; "
        "the interaction of two features that are each well tested alone (inheritance x patternProperties x default, "
        "tuple items x contains x uniqueItems, allOf x required x additionalProperties, renamed properties x "
        "dependencies x propertyNames, nested arrays of objects with defaults); or the difference between the ways "
        "of reaching the same thing (DSL class vs parsed schema vs generated module re-imported; keyword passed "
        "to the constructor vs assigned afterwards; `Property(...)` wrapper vs bare element)."),
    7: ("Make it look like a change a maintainer would plausibly merge. All inputs must be LEGAL (schemas valid under "
        "JSON Schema Draft 6, DSL calls with documented arguments and sensible usage). Aim at an OBSERVABLE named in "
        "the statement that checks rarely look at closely: the exact exception TYPE that escapes, warnings, the "
        "generated Python TEXT (imports, annotations, order of classes, keyword arguments), `isinstance` / identity of "
        "returned objects, `==` and `hash`, attribute access versus item access on results, the JSON TYPE of "
        "serialised numbers and booleans (1 vs 1.0 vs true), what the element tree looks like AFTER the call; or at "
        "an API SEQUENCE rather than a single call: build -> serialise -> reconfigure -> serialise again; parse the "
        "output of serialize_json again and again; validate -> use or modify the returned object -> validate again; "
        "hand an instance of one model to another model; define a subclass of a parsed or generated class; use one "
        "element object in two different trees; register, use, re-register. Prefer a fault that only ONE of several "
        "equivalent routes shows (e.g. only the second of two equal sub-schemas, only the last property, only when "
        "the value is rejected first and accepted later)."),
    8: ("Make it look like a change a maintainer would plausibly merge. All inputs must be LEGAL (schemas valid under "
        "JSON Schema Draft 6, DSL calls with documented arguments and sensible usage). First read the statement "
        "clause by clause and pick the clause (or the item of the quantifier) that you judge LEAST likely to be "
        "enforced by anybody's tests - quote that clause in your meta.json 'needs' field - and break exactly that, "
        "leaving every other clause intact. Your change must also sit in a function that none of the earlier "
        "changes touched (their locations are listed below). Good hiding places: a second code path that does the "
        "same job as a well-tested one (the `Object` class path vs the untyped `Element` path; `parse()` vs "
        "`parse_element()`; tuple `items` vs single `items`; `AnyOf` vs `OneOf` vs `AllOf`; the JSON serialiser vs "
        "the Python serialiser), an early return or short-circuit that skips work for one shape of input only, "
        "or a helper shared by two features that is changed for the benefit of one of them."),
    9: ("Make it look like a change a maintainer would plausibly merge. All inputs must be LEGAL (schemas valid under "
        "JSON Schema Draft 6, DSL calls with documented arguments and sensible usage). This time aim at an "
        "EQUIVALENCE that users take for granted and single-input tests never compare: two inputs that mean the "
        "same must be treated the same. Examples: the same schema with its keywords or its properties written in "
        "another order; a sub-schema written inline vs reached through `$ref` / `definitions`; the same sub-schema "
        "dict object shared by two places vs two equal copies; a keyword given with its default value vs left out; "
        "`{\"type\": [\"string\"]}` vs `{\"type\": \"string\"}`; a one-member `allOf`/`anyOf` vs its member; the same "
        "data with object members in another order, or with 1 vs 1.0 where the schema allows both; a model built "
        "with the DSL vs parsed from its own serialize_json output vs re-imported from its own serialize_python "
        "output; validating A then B vs B then A. Break the property for ONE side of such a pair only. Your change "
        "must also sit in a function that none of the earlier changes touched (their locations are listed below)."),
    10: ("Make it look like a change a maintainer would plausibly merge. All inputs must be LEGAL (schemas valid under "
         "JSON Schema Draft 6, DSL calls with documented arguments and sensible usage). This time aim at DEGENERATE BUT "
         "LEGAL spellings that real documents contain and hand-written tests skip: empty containers as keyword values "
         "(`required: []`, `properties: {}`, `patternProperties: {}`, `dependencies: {}`, `definitions: {}`, a "
         "one-value `enum`, a one-member `anyOf`/`oneOf`/`allOf`); the boolean schemas `true` / `false` in every "
         "position where a schema may stand (`items`, `additionalItems`, a value under `properties` / "
         "`patternProperties` / `dependencies` / `definitions`, `not`, `contains`, `propertyNames`, a member of a "
         "composition, the whole document); keywords given with the value they have anyway (`additionalProperties: "
         "true`, `minItems: 0`, `uniqueItems: false`, `required=False` on a Property); numeric keywords written as "
         "integral floats (`minLength: 2.0`, `maxItems: 3.0`) or as very large integers; keywords that are "
         "irrelevant for the declared type (`minLength` next to `type: integer`, `items` next to `type: object`, "
         "`properties` next to `type: array`) or for the value at hand; a `title` / `description` / `default` that is "
         "an empty string, `null`, `false`, `0` or an empty container; the same keyword reached through two levels of "
         "nesting of the same kind (array of arrays, object in `additionalProperties` of an object, `not` of `not`). "
         "Break the property for ONE such spelling only, leaving the ordinary spelling intact. Your change must "
         "also sit in a function that none of the earlier changes touched (their locations are listed below)."),
}


def locations(pid, rnd):
    if rnd < 8:
        return ""
    locs = used_locations(pid)
    return "      Locations they changed (file: enclosing definition):\n" + "".join(f"        - {x}\n" for x in locs)


def used_locations(pid):
    import glob
    import re

    out = []
    for path in sorted(glob.glob(os.path.join(home, "seeded", pid + "*", "patch.diff"))):
        current = None
        for line in open(path, encoding="utf8", errors="replace"):
            if line.startswith("+++ b/"):
                current = line[6:].strip()
            m = re.match(r"@@ .* @@\s*(.*)", line)
            if m and current:
                ctx = m.group(1).strip()
                item = current + (": " + ctx if ctx else "")
                if item not in out:
                    out.append(item)
    return out


for pid, p in props.items():
    prev = []
    for sfx in [""] + ["-r%d" % i for i in range(2, rnd)]:
        path = os.path.join(home, "seeded", pid + sfx, "meta.json")
        if os.path.exists(path):
            prev.append(json.load(open(path))["summary"])
    prevtxt = "\n".join(f'      {i + 1}. "{t}"' for i, t in enumerate(prev))
    wt = f"{root}/{pid}"
    text = f"""You are helping to evaluate a test-quality study. Work ONLY inside the git worktree {wt} (a checkout of the Python library jacksmith15/statham-schema: parses JSON Schema dicts into an Element tree, validates data, serialises back to JSON Schema or generated Python classes). Do not read or write anything under /verif or /repo, and do not look at other {root}/* directories. IMPORTANT: never use `git stash` (shared between worktrees; other people work in sibling worktrees); to go back and forth use `git diff -- statham > _seed/patch.diff`, `git checkout -- statham`, `git apply _seed/patch.diff`.

Here is a semantic property the library is supposed to satisfy:

  id: {pid}
  title: {p['title']}
  statement: {p['statement']}
  it quantifies over: {p['quantifier']['text']}
  why example-based tests cannot settle it: {p['why_tests_cant']}

Your task: make a SMALL, REALISTIC change to the library source under {wt}/statham/ that BREAKS this property while:
  (a) the package still imports, and
  (b) the existing test suite still passes: run it with
        cd {wt} && PYTHONPATH={wt} /venv/bin/python -m pytest -q -p no:cacheprovider --timeout=900 --continue-on-collection-errors
      Before your change it reports '1008 passed, 8 xfailed' plus 2 collection errors that need network (ignore those 2 errors). After your change it must still report 1008 passed.
  (c) the breakage needs something SPECIFIC to manifest and is as hard to notice as you can make it while still being a genuine violation of the statement above. {THEMES[rnd]}
  (d) {len(prev)} other people already wrote changes for this property; yours must be different in kind and location from all of them:
{prevtxt}
{locations(pid, rnd)}      Do not touch tests.

Then write a demonstration {wt}/_seed/demo.py: a small standalone program (run as: cd {wt} && PYTHONPATH={wt} /venv/bin/python _seed/demo.py) that exits 0 on the ORIGINAL code and exits non-zero (assertion failure) WITH your change, by exercising exactly the broken behaviour through the public API. Verify both directions yourself.

Finally leave these files:
  {wt}/_seed/patch.diff   - output of `git diff -- statham` (leave your change applied in the working tree when you finish)
  {wt}/_seed/demo.py
  {wt}/_seed/meta.json    - {{"property": "{pid}", "summary": "<one sentence: what you changed>", "needs": "<what specific input/sequence/interleaving is needed for it to manifest>", "test_suite": "<the last line of the pytest output with your change>"}}

Keep the change to a few lines in one or two files. Use /venv/bin/python (Python 3.12). There is no network. If, while reading the code, you notice that the ORIGINAL code already violates the statement for some legal input, mention it in one extra line of your reply (do not fix it). Reply with a 3-line summary when done."""
    open(os.path.join(root, "prompts", pid + ".txt"), "w").write(text)
print("ok", len(props))
