#!/bin/sh
# Every seeded change against every check (quick tier). Results: seeded/matrix/<seed>.json
cd "$(dirname "$0")/.."
mkdir -p seeded/matrix
for d in seeded/C*; do
  name=$(basename "$d")
  pid=$(echo "$name" | cut -c1-3)
  [ -s "seeded/matrix/$name.json" ] && continue
  tools/eval_seed.py "$d" "$pid" --all > "seeded/matrix/$name.json" 2>&1
  echo "$name done"
done
