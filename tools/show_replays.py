import json,sys,glob
for path in sorted(glob.glob(sys.argv[1])):
    b=json.load(open(path))
    c=b['case']
    print('----',path)
    print(json.dumps({k:v for k,v in c.items() if k!='values'})[:int(sys.argv[2]) if len(sys.argv)>2 else 900])
    for f in b['failures'][:2]:
        print(' FAIL', f.get('kind'), '| value=',json.dumps(f.get('value'))[:200], '|', json.dumps({k:v for k,v in f.items() if k not in ('kind','value','sub')})[:700])
