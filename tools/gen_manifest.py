#!/venv/bin/python
"""Regenerate MANIFEST.json from the table below (keeps it schema-valid)."""
import glob
import json
import os

HOME = os.path.dirname(os.path.dirname(os.path.abspath(__file__)))

# id -> (technique, level text, level note, design ref)
CHECKS = {
    "C01": (
        "Hypothesis grammar-based generation of (Draft-6 schema, schema-directed values); differential oracle = own reference Draft-6 validator (three-valued), self-checked against jsonschema; schemas parsed directly or through the documented loader; a late format-registration round; thorough adds coverage-guided atheris (libFuzzer) campaigns over the same strategy with the oracle inside the target",
        "Generated-input search: every (schema, value) verdict of the parsed element is compared with an independent Draft-6 reference validator; held on everything explored within depth<=4, containers<=4.",
        "Trusted: vlib/ref6.py reading of Draft 6 (cross-checked per case against jsonschema.Draft6Validator), comfortable number range, dialect-independent regex pool.",
        "DESIGN.md 4/C01",
    ),
    "C02": (
        "Hypothesis generation of multi-file $ref documents; round-trip/differential oracle: generated module text is compiled and exec'd in an empty namespace and each class compared (==, verdicts, read-back) with the directly parsed model",
        "Generated-input search over non-recursive documents (local, cross-file, diamond $ref sharing; repeated, odd and missing titles; hostile descriptions): module executes with only its own imports, one class per distinct object schema in dependency order, classes equal and verdict-identical to the parsed ones.",
        "Trusted: json_ref_dict resolution (documents served in memory through its public loader registry); agreement with the source schema follows from C01.",
        "DESIGN.md 4/C02",
    ),
    "C03": (
        "Hypothesis generation of element-tree recipes (DSL) and parsed schemas x extra definitions x values; oracle: JSON-serialisable, metaschema-valid, refs resolve, ref6(document, v) == element verdict",
        "Generated-input search: serialize_json output is checked structurally and its meaning is compared value by value with the element tree through the reference validator.",
        "Trusted: vlib/ref6.py; definition keys never alias a different reachable class; acyclic trees.",
        "DESIGN.md 4/C03",
    ),
    "C04": (
        "Hypothesis generation of container-biased schemas/recipes x accepted values; oracle: structural read-back of every input member through the public access paths plus nothing-invented check; thorough adds coverage-guided atheris (libFuzzer) campaigns over the same strategy with the oracle inside the target",
        "Generated-input search: for every accepted value the returned model is walked through attribute/item access and compared member by member with the input (int->float tolerated only under number schemas).",
        "Trusted: the read-back walker vlib/readback.py; values limited to depth<=4.",
        "DESIGN.md 4/C04",
    ),
    "C05": (
        "Hypothesis generation of object schemas with valid/invalid defaults; exhaustive enumeration of supplied-property subsets per schema; metamorphic oracle omitted == supplied-with-default, supplied never replaced",
        "Generated-input search with exhaustive subset enumeration (<=2^4 per schema) over class-based and untyped objects, renamed and plain names, nested and class-level defaults.",
        "Trusted: conversion of a default is observed through the property's own element (differential within the library, as the statement says).",
        "DESIGN.md 4/C05",
    ),
    "C06": (
        "Hypothesis generation of supported schemas; round-trip oracle: serialize(parse(materialize(serialize(parse(S))))) == serialize(parse(S)) and exec(serialize_python) classes == parsed classes; thorough adds coverage-guided atheris (libFuzzer) campaigns over the same strategy with the oracle inside the target",
        "Generated-input search for the fixpoint property on the parser's image, through the documented materialize + title_labeller pipeline.",
        "Trusted: json_ref_dict materialize; comparison is type-faithful, key order ignored, required compared as a set.",
        "DESIGN.md 4/C06",
    ),
    "C07": (
        "Hypothesis generation of default-carrying schema shapes x JSON defaults x hostile description strings; oracle: literal type-faithful equality at parse, serialize_json and executed serialize_python",
        "Generated-input search over every shape a default can sit on and description alphabets with quotes, backslashes, newlines, non-ASCII.",
        "Trusted: location-wise comparison of defaults in the normal form (composition restructuring is followed by the harness).",
        "DESIGN.md 4/C07",
    ),
    "C08": (
        "Hypothesis rule-based state machine over validation-call histories on recipe-built trees; invariant: tree == untouched twin, same repr/JSON/Python text/deep dump, input unchanged, repeat-equal",
        "Stateful generated-history search: after every call every observable of the tree is compared with the initial snapshot and with an independently built twin.",
        "Trusted: vlib/observe.py snapshot covers repr, both serialisers and a deep attribute dump of every reachable element and property.",
        "DESIGN.md 4/C08",
    ),
    "C09": (
        "Generated documents x PYTHONHASHSEED values x process instances; differential oracle: byte equality of generated module, JSON dump and class names across subprocesses (covering set of hash seeds + derived seeds; one process generates the batch in reverse order)",
        "Generated-input search across real subprocesses with different string-hash seeds, including the literal CLI.",
        "Trusted: finite set of hash seeds (covering for small string sets + seeds derived from VERIF_SEED).",
        "DESIGN.md 4/C09",
    ),
    "C10": (
        "Hypothesis generation over the widened grammar (extreme numbers, deep nesting, odd Unicode, dunder names); oracle: exception-type allow-list + bounded-step termination; thorough adds coverage-guided atheris over the same test",
        "Generated-input fuzzing of parse_element and element calls; anything other than returning, ValidationError/TypeError (calls) or SchemaParseError (parse) is a violation.",
        "Trusted: recursion budget bound (depth<=40); RecursionError counted inconclusive; hang detector needs two confirmations.",
        "DESIGN.md 4/C10",
    ),
    "C11": (
        "Hypothesis generation of class dependency graphs with edges hidden in every keyword position; oracle: independent reachability/topological check on the recipe graph, SchemaParseError on reachable cycles, step-bounded termination",
        "Generated-input search over DAGs and cyclic graphs (1-7 classes), edge wrappers of depth 1-3 over all 13 positions.",
        "Trusted: own DFS over the generated graph; line-count step budget as termination detector.",
        "DESIGN.md 4/C11",
    ),
    "C12": (
        "Exhaustive enumeration of all 1,114,112 code points in five contexts + Hypothesis strings and sibling-name sets; oracle: str.isidentifier/keyword/reserved predicates, end-to-end usability through parse and generated code, injectivity",
        "Exhaustive over the single-code-point sub-domain, generated search for longer names, sibling sets and titles.",
        "Trusted: Python's own identifier/keyword predicates and compile().",
        "DESIGN.md 4/C12",
    ),
    "C13": (
        "Hypothesis rule-based state machine interleaving reconfiguration steps and validation calls; model-based oracle: fresh element built from the model configuration, plus a ref6 second opinion settled by the same configuration in a new interpreter (subprocess)",
        "Stateful generated-history search: after each reconfiguration the real element and a freshly built element with the same configuration must agree on verdict and result.",
        "Trusted: recipe model of the configuration (vlib/recipes.py), only reconfiguration forms the docs name.",
        "DESIGN.md 4/C13",
    ),
    "C14": (
        "Hypothesis-generated schedules executed by an owned thread scheduler (sys.settrace baton, one runnable thread at a time) + free-running stress; oracle: sequential run of the same calls, tree snapshot unchanged",
        "Schedule exploration at line granularity of pure-Python frames for 2-4 threads; deterministic function of (recipe, values, schedule).",
        "Trusted: GIL-level atomicity of C operations; no claim for free-threaded builds.",
        "DESIGN.md 4/C14",
    ),
    "C15": (
        "Hypothesis generation of parent/child(/grandchild) class triples x values x operation orders; differential oracle: child == documented flat merge; parent snapshot invariant over the history",
        "Generated-input and history search comparing the subclass with the equivalent flat class (verdicts, read-back, alpha-normalised JSON) and the parent before/after every step.",
        "Trusted: the documented merge rule implemented in vlib/recipes.flat_class.",
        "DESIGN.md 4/C15",
    ),
    "C16": (
        "Hypothesis rule-based state machine over registration histories with a dictionary model of the registry; generated UUIDs (all 2^128 via integers) and RFC 3339 timestamps from the ABNF; short generated histories each run in a new interpreter (subprocess) against the same model",
        "Stateful model-based search for the registry semantics, generated-input search for the built-in checkers.",
        "Trusted: RFC 3339 section 5.6 grammar generator; registry saved/restored per case.",
        "DESIGN.md 4/C16",
    ),
    "C17": (
        "Hypothesis generation of recipe pairs (identical builds / one-point mutants / parse round trips) x values aimed at the mutation; oracle: reflexive, symmetric, copies equal, == implies same verdicts and same alpha-normalised JSON; variants of one titled schema at several positions of a document vs independent parses",
        "Generated-input search over element pairs differing in one keyword, literal, property attribute or element class.",
        "Trusted: alpha normalisation (inline refs, drop class-derived titles); type-faithful JSON comparison.",
        "DESIGN.md 4/C17",
    ),
    "C18": (
        "Hypothesis generation of recipes over every constructor's full keyword set; round-trip oracle eval(repr(e)) == e plus AST check that exactly the non-default keywords appear",
        "Generated-input search over all public constructors, keyword subsets, literal values equal to defaults / falsy / nested, bound and unbound properties.",
        "Trusted: Python's ast module for the keyword inventory of the repr.",
        "DESIGN.md 4/C18",
    ),
    "C19": (
        "Hypothesis generation of models holding arbitrary element recipes under properties/items x accepted values; oracle: runtime value conforms to the evaluated annotation read as a type checker does",
        "Generated-input search: annotation text is evaluated with typing names and the model's classes; a structural conformance judge checks every attribute value.",
        "Trusted: the conformance judge (Any, None, bool<int<float tower, List, Union, Maybe, classes).",
        "DESIGN.md 4/C19",
    ),
    "C20": (
        "Hypothesis generation of supported schemas x enumerated schema positions x unsupported keywords; generated cyclic $ref documents; oracle: FeatureNotImplementedError with the part, clean parse without it",
        "Generated-input search with position enumeration (every interpreted schema position of each generated schema) and reference cycles of length 1-8.",
        "Trusted: position enumerator vlib/schemas.walk mirrors the positions statham interprets.",
        "DESIGN.md 4/C20",
    ),
}

NOT_YET = "check not built yet in this session; see DESIGN.md section 4 for the planned generated-input check"


def main():
    props = [json.loads(l) for l in open(os.path.join(HOME, "properties.jsonl"))]
    have = {
        os.path.basename(p).split("_")[0].upper()
        for p in glob.glob(os.path.join(HOME, "props", "c*.py"))
    }
    checks = []
    not_applicable = []
    for p in props:
        pid = p["id"]
        if pid in CHECKS and pid in have:
            tech, text, note, ref = CHECKS[pid]
            checks.append(
                {
                    "property_id": pid,
                    "quick_cmd": f"./check {pid} --tier quick",
                    "thorough_cmd": f"./check {pid} --tier thorough",
                    "evidence_file": f"/verif/evidence/{pid}.json",
                    "replay_cmd_template": f"./check {pid} --replay {{path}}",
                    "engine": "hypothesis",
                    "level_claimed": {"category": "exploration", "text": text, "design_ref": ref},
                    "level_note": note,
                    "technique": tech,
                }
            )
        else:
            not_applicable.append({"property_id": pid, "reason": NOT_YET})
    manifest = {
        "version": 1,
        "setup_cmd": "./setup.sh",
        "hooks": {
            "guard": "STATHAM_SCHEMA_VERIF",
            "enable": "no hooks are needed: every observation point is public API; checks import /repo's working tree directly (VERIF_REPO_DIR, default /repo)",
            "baseline_off_cmd": "cd /repo && /venv/bin/python -m pytest -ra -q -p no:cacheprovider --timeout=900 --continue-on-collection-errors",
            "source_commits": [],
            "add_only": True,
        },
        "engines": [
            {
                "name": "hypothesis",
                "path": "/verif/.deps/hypothesis (or /venv site-packages)",
                "serves_properties": [c["property_id"] for c in checks],
                "kind_free_text": "property-based testing: composite strategies, rule-based state machines, sharded over 16 processes with derived seeds",
            }
        ],
        "checks": checks,
        "not_applicable": not_applicable,
        "notes": "Entry point ./check <id> [--tier quick|thorough] [--replay file]; VERIF_SEED and VERIF_TIER honoured; exit 0 held / 1 VIOLATION / 2 harness error. Known findings: known-findings.txt.",
    }
    with open(os.path.join(HOME, "MANIFEST.json"), "w") as fh:
        json.dump(manifest, fh, indent=1)
        fh.write("\n")
    try:
        import jsonschema

        schema = json.load(open("/root/.vp/MANIFEST.schema.json"))
        jsonschema.Draft202012Validator(schema).validate(manifest)
        print("MANIFEST.json valid;", len(checks), "checks,", len(not_applicable), "not_applicable")
    except ImportError:
        print("written (jsonschema unavailable, not validated)")


if __name__ == "__main__":
    main()
