#!/venv/bin/python
"""Regenerate MANIFEST.json from the table below (keeps it schema-valid)."""
import glob
import json
import os

HOME = os.path.dirname(os.path.dirname(os.path.abspath(__file__)))

# id -> (technique, level text, level note, design ref)
CHECKS = {
    "C01": (
        "Hypothesis grammar-based generation of (Draft-6 schema, schema-directed values); differential oracle = own reference Draft-6 validator (three-valued), self-checked against jsonschema",
        "Generated-input search: every (schema, value) verdict of the parsed element is compared with an independent Draft-6 reference validator; held on everything explored within depth<=4, containers<=4.",
        "Trusted: vlib/ref6.py reading of Draft 6 (cross-checked per case against jsonschema.Draft6Validator), comfortable number range, dialect-independent regex pool.",
        "DESIGN.md 4/C01",
    ),
}

NOT_YET = "check not built yet in this session; see DESIGN.md section 4 for the planned generated-input check"


def main():
    props = [json.loads(l) for l in open(os.path.join(HOME, "properties.jsonl"))]
    have = {
        os.path.basename(p).split("_")[0].upper()
        for p in glob.glob(os.path.join(HOME, "props", "c*.py"))
    }
    checks = []
    not_applicable = []
    for p in props:
        pid = p["id"]
        if pid in CHECKS and pid in have:
            tech, text, note, ref = CHECKS[pid]
            checks.append(
                {
                    "property_id": pid,
                    "quick_cmd": f"./check {pid} --tier quick",
                    "thorough_cmd": f"./check {pid} --tier thorough",
                    "evidence_file": f"/verif/evidence/{pid}.json",
                    "replay_cmd_template": f"./check {pid} --replay {{path}}",
                    "engine": "hypothesis",
                    "level_claimed": {"category": "exploration", "text": text, "design_ref": ref},
                    "level_note": note,
                    "technique": tech,
                }
            )
        else:
            not_applicable.append({"property_id": pid, "reason": NOT_YET})
    manifest = {
        "version": 1,
        "setup_cmd": "./setup.sh",
        "hooks": {
            "guard": "STATHAM_SCHEMA_VERIF",
            "enable": "no hooks are needed: every observation point is public API; checks import /repo's working tree directly (VERIF_REPO_DIR, default /repo)",
            "baseline_off_cmd": "cd /repo && /venv/bin/python -m pytest -ra -q -p no:cacheprovider --timeout=900 --continue-on-collection-errors",
            "source_commits": [],
            "add_only": True,
        },
        "engines": [
            {
                "name": "hypothesis",
                "path": "/verif/.deps/hypothesis (or /venv site-packages)",
                "serves_properties": [c["property_id"] for c in checks],
                "kind_free_text": "property-based testing: composite strategies, rule-based state machines, sharded over 16 processes with derived seeds",
            }
        ],
        "checks": checks,
        "not_applicable": not_applicable,
        "notes": "Entry point ./check <id> [--tier quick|thorough] [--replay file]; VERIF_SEED and VERIF_TIER honoured; exit 0 held / 1 VIOLATION / 2 harness error. Known findings: known-findings.txt.",
    }
    with open(os.path.join(HOME, "MANIFEST.json"), "w") as fh:
        json.dump(manifest, fh, indent=1)
        fh.write("\n")
    try:
        import jsonschema

        schema = json.load(open("/root/.vp/MANIFEST.schema.json"))
        jsonschema.Draft202012Validator(schema).validate(manifest)
        print("MANIFEST.json valid;", len(checks), "checks,", len(not_applicable), "not_applicable")
    except ImportError:
        print("written (jsonschema unavailable, not validated)")


if __name__ == "__main__":
    main()
