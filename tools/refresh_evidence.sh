#!/bin/sh
# Re-run every quick check against /repo itself (evidence/*.json must describe the real tree).
cd "$(dirname "$0")/.."
unset VERIF_REPO_DIR VERIF_EVIDENCE_DIR
rc=0
for i in 01 02 03 04 05 06 07 08 09 10 11 12 13 14 15 16 17 18 19 20; do
  out=$(./check C$i --tier "${1:-quick}" 2>/dev/null); code=$?
  echo "$out" | grep -E "^C$i |VIOLATION|HARNESS|KNOWN" | cut -c1-220
  [ $code -ne 0 ] && rc=1 && echo "  -> exit $code"
done
exit $rc
