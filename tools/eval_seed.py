#!/venv/bin/python
"""Confirm a seeded change and run the checks against it.

usage: tools/eval_seed.py <seed_dir with patch.diff demo.py meta.json> <Cxx> [--all] [--tier quick]

1. scratch copy of /repo (outside /repo and /verif), demo must exit 0
2. apply patch; repo test suite must still report 1008 passed; demo must exit non-zero
3. run ./check <Cxx> (and with --all every check) with VERIF_REPO_DIR=<scratch>
4. print a JSON summary; scratch copy is removed
"""
import json
import os
import re
import shutil
import subprocess
import sys
import tempfile

HOME = os.path.dirname(os.path.dirname(os.path.abspath(__file__)))
ALL = ["C%02d" % i for i in range(1, 21)]


def sh(cmd, cwd=None, env=None, timeout=3600):
    p = subprocess.run(cmd, shell=True, cwd=cwd, env=env, stdout=subprocess.PIPE, stderr=subprocess.STDOUT,
                       timeout=timeout)
    return p.returncode, p.stdout.decode(errors="replace")


def main():
    seed_dir, pid = sys.argv[1], sys.argv[2]
    run_all = "--all" in sys.argv
    tier = sys.argv[sys.argv.index("--tier") + 1] if "--tier" in sys.argv else "quick"
    scratch = tempfile.mkdtemp(prefix="seedeval_")
    out = {"property": pid, "seed_dir": seed_dir}
    try:
        shutil.copytree("/repo", os.path.join(scratch, "repo"), ignore=shutil.ignore_patterns(".git", "__pycache__"))
        repo = os.path.join(scratch, "repo")
        os.makedirs(os.path.join(repo, "_seed"), exist_ok=True)
        shutil.copy(os.path.join(seed_dir, "demo.py"), os.path.join(repo, "_seed", "demo.py"))
        env = dict(os.environ, PYTHONPATH=repo, PYTHONDONTWRITEBYTECODE="1")
        rc, log = sh("/venv/bin/python -W ignore _seed/demo.py", cwd=repo, env=env, timeout=600)
        out["demo_without_change"] = rc
        rc, log = sh(f"patch -p1 < {os.path.join(os.path.abspath(seed_dir), 'patch.diff')}", cwd=repo)
        out["patch_applies"] = rc == 0
        if rc != 0:
            out["patch_log"] = log[-500:]
            print(json.dumps(out, indent=1))
            return 1
        rc, log = sh("/venv/bin/python -m pytest -q -p no:cacheprovider --timeout=900 --continue-on-collection-errors",
                     cwd=repo, env=env)
        last = [l for l in log.strip().splitlines() if "passed" in l or "failed" in l][-1:]
        out["test_suite"] = last[0] if last else log[-200:]
        out["tests_pass"] = bool(last) and "1008 passed" in last[0] and not re.search(r"\b\d+ failed", last[0])
        rc, log = sh("/venv/bin/python -W ignore _seed/demo.py", cwd=repo, env=env, timeout=600)
        out["demo_with_change"] = rc
        out["demo_tail"] = log[-300:]
        out["confirmed"] = out["demo_without_change"] == 0 and out["demo_with_change"] != 0 and out["tests_pass"]
        checks = ALL if run_all else [pid]
        results = {}
        for c in checks:
            envc = dict(os.environ, VERIF_REPO_DIR=repo, VERIF_EVIDENCE_DIR=os.path.join(scratch, "evidence"))
            shutil.rmtree(os.path.join(HOME, "replays", c), ignore_errors=True)
            rc, log = sh(f"./check {c} --tier {tier} 2>/dev/null", cwd=HOME, env=envc, timeout=7200)
            kinds = sorted(set(re.findall(r"kinds=(\S+)", log)))
            results[c] = {"exit": rc, "kinds": kinds[:6]}
            if rc == 2:
                results[c]["log"] = log[-400:]
        out["checks"] = results
        out["caught_by_own_check"] = results.get(pid, {}).get("exit") == 1
        out["caught_by"] = [c for c, r in results.items() if r["exit"] == 1]
    finally:
        shutil.rmtree(scratch, ignore_errors=True)
    print(json.dumps(out, indent=1))
    return 0


if __name__ == "__main__":
    sys.exit(main())
