#!/bin/sh
# Run every hand-made mutant in mutants/ against its property's quick check and the repo's own suite.
# usage: tools/run_mutants.sh [pattern]   -> table on stdout
cd "$(dirname "$0")/.."
for m in mutants/${1:-*}.py; do
  pid=$(basename "$m" | cut -c1-3 | tr c C)
  D=$(mktemp -d /tmp/mutant.XXXXXX)
  cp -r /repo/. "$D"/ 2>/dev/null; rm -rf "$D/.git"
  (cd "$D" && /venv/bin/python "$OLDPWD/$m") || { echo "$m | edit failed"; rm -rf "$D"; continue; }
  suite=$(cd "$D" && PYTHONPATH="$D" /venv/bin/python -m pytest -q -p no:cacheprovider --timeout=900 --continue-on-collection-errors 2>&1 | tail -1 | sed 's/ in .*//')
  out=$(VERIF_REPO_DIR="$D" VERIF_EVIDENCE_DIR="$D/evidence" ./check "$pid" --tier quick 2>/dev/null)
  rc=$?
  kinds=$(echo "$out" | grep -o "kinds=[^ ]*" | sort -u | head -3 | tr '\n' ' ')
  echo "$(basename $m .py) | $pid | exit=$rc | $kinds | suite: $suite"
  rm -rf "$D" replays/$pid
done
