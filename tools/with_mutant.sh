#!/bin/sh
# usage: tools/with_mutant.sh <patch.diff | python-edit-script.py> <command...>
# Applies the change to a scratch copy of /repo (outside /repo and /verif), runs the command with
# VERIF_REPO_DIR pointing at it, then removes the copy.
set -e
PATCH="$(realpath "$1")"; shift
D=$(mktemp -d /tmp/mutant.XXXXXX)
trap 'rm -rf "$D"' EXIT
cp -r /repo/statham "$D/statham"
case "$PATCH" in
  *.py) (cd "$D" && /venv/bin/python "$PATCH") ;;
  *) (cd "$D" && patch -s -p1 < "$PATCH") ;;
esac
VERIF_REPO_DIR="$D" VERIF_EVIDENCE_DIR="$D/evidence" "$@"
