#!/venv/bin/python
"""seeded/matrix/*.json -> seeded/MATRIX.md"""
import glob, json, os
HOME = os.path.dirname(os.path.dirname(os.path.abspath(__file__)))
ALL = ["C%02d" % i for i in range(1, 21)]
rows = []
for p in sorted(glob.glob(os.path.join(HOME, "seeded", "matrix", "*.json"))):
    try:
        d = json.load(open(p))
    except Exception:
        continue
    name = os.path.basename(p)[:-5]
    cells = []
    for c in ALL:
        r = d.get("checks", {}).get(c)
        cells.append("?" if r is None else {0: ".", 1: "X", 2: "E"}.get(r["exit"], "?"))
    rows.append((name, cells))
with open(os.path.join(HOME, "seeded", "MATRIX.md"), "w") as fh:
    fh.write("# Seeded changes x checks (quick tier)\n\nX = VIOLATION reported, . = quiet, E = harness error (exit 2), ? = not run.\n"
             "Rows: seeded change (`-r2` = second round); columns: checks.\n\n")
    fh.write("| seed | " + " | ".join(c[1:] for c in ALL) + " |\n|---|" + "---|" * len(ALL) + "\n")
    for name, cells in rows:
        fh.write(f"| {name} | " + " | ".join(cells) + " |\n")
print(len(rows), "rows")
