#!/bin/sh
# Offline setup: third-party harness dependencies into ./.deps (git-ignored).
HERE="$(cd "$(dirname "$0")" && pwd)"
cd "$HERE"
if [ ! -d .deps/hypothesis ] || [ ! -d .deps/jsonschema ]; then
  /venv/bin/pip install --no-index --find-links /opt/veriftools/wheels \
      --target .deps hypothesis jsonschema atheris >/dev/null 2>&1 || \
  /venv/bin/pip install --no-index --find-links /opt/veriftools/wheels \
      --target .deps hypothesis jsonschema >/dev/null 2>&1 || true
fi
PYTHONPATH="$HERE/.deps" /venv/bin/python -c "import hypothesis; print('hypothesis', hypothesis.__version__)"
